// memdrive: script interpreter for MEDDLY's memory managers (property C18).
//
//   memdrive <script> <trace.ndjson>
//
// Script:   mm <OG|AG|HE|MA|FL> <granularity> <minsize>
//           req <id> <slots>     request a chunk, fill it with a pattern derived from id
//           rec <id>             verify the pattern, recycle the chunk
//           chk                  verify the pattern of every live chunk
// The driver only observes; every line is judged by TLC against MemMgr.tla.

#include "meddly.h"
#include "memory.h"
#include "memstats.h"
#include <cstdio>
#include <cstdlib>
#include <cstring>
#include <csignal>
#include <string>
#include <sstream>
#include <fstream>
#include <map>
#include <vector>
#include <unistd.h>
#include <fcntl.h>

using namespace MEDDLY;

static int trace_fd = -1;
static long seqno = 0;
static char curcmd[512];

static void emit(const std::string &s)
{
    std::string line = s;
    line.insert(line.size()-1, ",\"q\":" + std::to_string(++seqno));
    line.push_back('\n');
    const char* p = line.data(); size_t n = line.size();
    while (n) { ssize_t w = write(trace_fd, p, n); if (w <= 0) _exit(4); p += w; n -= size_t(w); }
}

static void crash_handler(int sig)
{
    char buf[700];
    int n = snprintf(buf, sizeof(buf), "{\"e\":\"Crash\",\"q\":%ld,\"sig\":%d,\"cmd\":\"%s\"}\n", seqno+1, sig, curcmd);
    if (n > 0) { ssize_t w = write(trace_fd, buf, size_t(n)); (void) w; }
    _exit(3);
}
static void term_handler() { crash_handler(99); }

struct Chunk { node_address h; size_t n; };
static memory_manager* MM = nullptr;
static unsigned gran = 4;
static std::map<long, Chunk> live;
static memstats the_stats;

// handle as three 16-bit-ish words (top word takes the rest): fits TLC integers
static std::string hwords(node_address h)
{
    unsigned long u = (unsigned long) h;
    return "[" + std::to_string(u >> 32) + "," + std::to_string((u >> 16) & 0xffff) + "," + std::to_string(u & 0xffff) + "]";
}

static unsigned long pat(long id, size_t i)
{
    unsigned long x = (unsigned long)(id) * 2654435761UL + (unsigned long)(i) * 40503UL + 12345UL;
    x ^= (x >> 13);
    return x;
}

static void fill(long id, const Chunk &c)
{
    void* p = MM->getChunkAddress(c.h);
    if (gran == 4) {
        unsigned* u = (unsigned*) p;
        for (size_t i=0; i<c.n; i++) u[i] = unsigned(pat(id, i)) & 0x7fffffffU;
    } else if (gran == 8) {
        unsigned long* u = (unsigned long*) p;
        for (size_t i=0; i<c.n; i++) u[i] = pat(id, i) & 0x7fffffffffffffffUL;
    } else {
        unsigned char* u = (unsigned char*) p;
        for (size_t i=0; i<c.n*gran; i++) u[i] = (unsigned char)(pat(id, i)) & 0x7f;
    }
}

static bool intact(long id, const Chunk &c)
{
    void* p = MM->getChunkAddress(c.h);
    if (gran == 4) {
        const unsigned* u = (const unsigned*) p;
        for (size_t i=0; i<c.n; i++) if (u[i] != (unsigned(pat(id, i)) & 0x7fffffffU)) return false;
    } else if (gran == 8) {
        const unsigned long* u = (const unsigned long*) p;
        for (size_t i=0; i<c.n; i++) if (u[i] != (pat(id, i) & 0x7fffffffffffffffUL)) return false;
    } else {
        const unsigned char* u = (const unsigned char*) p;
        for (size_t i=0; i<c.n*gran; i++) if (u[i] != ((unsigned char)(pat(id, i)) & 0x7f)) return false;
    }
    return true;
}

int main(int argc, char** argv)
{
    if (argc < 3) { fprintf(stderr, "usage: memdrive script trace\n"); return 2; }
    trace_fd = open(argv[2], O_WRONLY | O_CREAT | O_APPEND, 0644);
    if (trace_fd < 0) { perror("trace"); return 2; }
    std::ifstream in(argv[1]);
    if (!in) { perror("script"); return 2; }
    signal(SIGSEGV, crash_handler); signal(SIGABRT, crash_handler); signal(SIGFPE, crash_handler);
    signal(SIGBUS, crash_handler); signal(SIGILL, crash_handler);
    std::set_terminate(term_handler);

    emit("{\"e\":\"Reset\"}");
    MEDDLY::initialize();
    std::string line;
    while (std::getline(in, line)) {
        if (line.empty() || line[0]=='#') continue;
        std::istringstream ls(line);
        std::string c; ls >> c;
        strncpy(curcmd, line.c_str(), sizeof(curcmd)-1);
        try {
            if (c == "mm") {
                std::string st; unsigned g, ms; ls >> st >> g >> ms;
                const memory_manager_style* S =
                    st=="OG" ? ORIGINAL_GRID : st=="AG" ? ARRAY_PLUS_GRID : st=="HE" ? HEAP_MANAGER :
                    st=="MA" ? MALLOC_MANAGER : FREELISTS;
                gran = g;
                live.clear();
                MM = S->initManager((unsigned char) g, (unsigned char) ms, the_stats);
                if (!MM) { fprintf(stderr, "memdrive: style %s does not support granularity %u\n", st.c_str(), g); return 2; }
                emit("{\"e\":\"MM\",\"style\":\"" + st + "\",\"gran\":" + std::to_string(g) + ",\"min\":" + std::to_string(ms)
                     + ",\"first\":" + std::to_string(MM->firstSlotMustClearMSB() ? 1 : 0)
                     + ",\"last\":" + std::to_string(MM->lastSlotMustClearMSB() ? 1 : 0) + "}");
            } else if (c == "req") {
                long id; size_t n; ls >> id >> n;
                size_t got = n;
                std::string head = "{\"e\":\"MReq\",\"id\":" + std::to_string(id) + ",\"want\":" + std::to_string(n);
                try {
                    node_address h = MM->requestChunk(got);
                    if (h && got) { Chunk ck; ck.h = h; ck.n = got; live[id] = ck; fill(id, ck); }
                    emit(head + ",\"ok\":1,\"got\":" + std::to_string(got) + ",\"nz\":" + std::to_string(h ? 1 : 0) + ",\"h\":" + hwords(h) + "}");
                } catch (error e) {
                    emit(head + ",\"ok\":0,\"err\":\"" + std::string(e.getName()) + "\"}");
                }
            } else if (c == "rec") {
                long id; ls >> id;
                std::map<long,Chunk>::iterator it = live.find(id);
                if (it == live.end()) { fprintf(stderr, "memdrive: rec of unknown id\n"); return 2; }
                bool ok = intact(id, it->second);
                Chunk ck = it->second;
                live.erase(it);
                MM->recycleChunk(ck.h, ck.n);
                emit("{\"e\":\"MRec\",\"id\":" + std::to_string(id) + ",\"intact\":" + std::to_string(ok ? 1 : 0) + ",\"ok\":1}");
            } else if (c == "chk") {
                std::string bad = "[";
                bool first = true;
                for (std::map<long,Chunk>::iterator it=live.begin(); it!=live.end(); ++it) {
                    if (!intact(it->first, it->second)) {
                        if (!first) bad += ',';
                        first = false;
                        bad += std::to_string(it->first);
                    }
                }
                bad += "]";
                emit("{\"e\":\"MChk\",\"live\":" + std::to_string(live.size()) + ",\"bad\":" + bad + "}");
            } else {
                fprintf(stderr, "memdrive: unknown command %s\n", c.c_str());
                return 2;
            }
        } catch (error e) {
            fprintf(stderr, "memdrive: stray MEDDLY error %s\n", e.getName());
            return 2;
        }
        curcmd[0] = 0;
    }
    emit("{\"e\":\"End\"}");
    close(trace_fd);
    _exit(0);
}
