// codecdrive: exercises MEDDLY's terminal / edge-value encoding (property C19).
//
//   codecdrive <script: "seed count"> <trace.ndjson>
//
// Emits one line per encoded value: the value (integers as signed 32-bit, floats
// as their IEEE-754 bit pattern read as a signed 32-bit integer), the handle the
// library produced (node_handle is a signed 32-bit integer), and what the
// library decodes from that handle - through class terminal and through the
// forest convenience functions.  Every line is judged by TLC against Codec.tla.

#include "meddly.h"
#include <cstdio>
#include <cstdlib>
#include <cstring>
#include <csignal>
#include <string>
#include <vector>
#include <unistd.h>
#include <fcntl.h>

using namespace MEDDLY;

static int trace_fd = -1;
static long seqno = 0;
static std::string buf;

static void emit(const std::string &s)
{
    buf += s;
    buf.insert(buf.size()-1, ",\"q\":" + std::to_string(++seqno));
    buf.push_back('\n');
    if (buf.size() > (1<<16)) { ssize_t w = write(trace_fd, buf.data(), buf.size()); (void) w; buf.clear(); }
}
static void flush() { if (!buf.empty()) { ssize_t w = write(trace_fd, buf.data(), buf.size()); (void) w; buf.clear(); } }

static void crash_handler(int sig)
{
    flush();
    char b[200];
    int n = snprintf(b, sizeof(b), "{\"e\":\"Crash\",\"q\":%ld,\"sig\":%d,\"cmd\":\"codec\"}\n", seqno+1, sig);
    if (n > 0) { ssize_t w = write(trace_fd, b, size_t(n)); (void) w; }
    _exit(3);
}

static unsigned long rs = 88172645463325252UL;
static unsigned long rnd() { rs ^= rs << 13; rs ^= rs >> 7; rs ^= rs << 17; return rs; }

static forest* FI = nullptr;
static forest* FR = nullptr;
static forest* FB = nullptr;
static forest* FP = nullptr;

static void do_int(long v)
{
    std::string s = "{\"e\":\"CInt\",\"v\":" + std::to_string(v);
    try {
        terminal t(v);
        node_handle h = t.getHandle();
        terminal u(terminal_type::INTEGER, h);
        long d = u.getInteger();
        node_handle fh = FI->handleForValue(v);
        long fd = FI->getIntegerFromHandle(fh);
        s += ",\"ok\":1,\"h\":" + std::to_string(long(h)) + ",\"d\":" + std::to_string(d)
           + ",\"fh\":" + std::to_string(long(fh)) + ",\"fd\":" + std::to_string(fd) + "}";
    } catch (error e) {
        s += ",\"ok\":0,\"err\":\"" + std::string(e.getName()) + "\"}";
    }
    emit(s);
}

static int f2bits(float f) { int b; memcpy(&b, &f, 4); return b; }
static float bits2f(int b) { float f; memcpy(&f, &b, 4); return f; }

static void do_real(int sb)
{
    float f = bits2f(sb);
    std::string s = "{\"e\":\"CReal\",\"sb\":" + std::to_string(sb);
    try {
        terminal t(f);
        node_handle h = t.getHandle();
        terminal u(terminal_type::REAL, h);
        float d = float(u.getReal());
        node_handle fh = FR->handleForValue(f);
        float fd = FR->getRealFromHandle(fh);
        s += ",\"ok\":1,\"h\":" + std::to_string(long(h)) + ",\"db\":" + std::to_string(f2bits(d))
           + ",\"fh\":" + std::to_string(long(fh)) + ",\"fdb\":" + std::to_string(f2bits(fd))
           + ",\"z\":" + std::to_string(f == 0.0f ? 1 : 0) + ",\"dz\":" + std::to_string(d == 0.0f ? 1 : 0) + "}";
    } catch (error e) {
        s += ",\"ok\":0,\"err\":\"" + std::string(e.getName()) + "\"}";
    }
    emit(s);
}

static void do_bool(bool v)
{
    terminal t(v);
    node_handle h = t.getHandle();
    terminal u(terminal_type::BOOLEAN, h);
    node_handle fh = FB->handleForValue(v);
    emit("{\"e\":\"CBool\",\"v\":" + std::to_string(v ? 1 : 0) + ",\"ok\":1,\"h\":" + std::to_string(long(h))
         + ",\"d\":" + std::to_string(u.getBoolean() ? 1 : 0) + ",\"fh\":" + std::to_string(long(fh))
         + ",\"fd\":" + std::to_string(FB->getBooleanFromHandle(fh) ? 1 : 0) + "}");
}

// constants through createConstant + evaluate (MT integer, MT real, EV+)
static void do_const(long v, bool inf)
{
    std::string s = "{\"e\":\"CConst\",\"v\":" + std::to_string(inf ? (1L<<30) : v);
    try {
        dd_edge e(FI), p(FP);
        minterm m(FI);
        m.setVar(1, 0);
        rangeval r;
        long got = 0, gotp = 0;
        if (!inf) {
            FI->createConstant(rangeval(v), e);
            e.evaluate(m, r);
            got = long(r);
            FP->createConstant(rangeval(v), p);
        } else {
            FP->createConstant(rangeval(range_special::PLUS_INFINITY, range_type::INTEGER), p);
        }
        minterm mp(FP);
        mp.setVar(1, 0);
        p.evaluate(mp, r);
        gotp = r.isPlusInfinity() ? (1L<<30) : long(r);
        s += ",\"ok\":1,\"mt\":" + std::to_string(inf ? (1L<<30) : got) + ",\"evp\":" + std::to_string(gotp) + "}";
    } catch (error e) {
        s += ",\"ok\":0,\"err\":\"" + std::string(e.getName()) + "\"}";
    }
    emit(s);
}

int main(int argc, char** argv)
{
    // codecdrive <script> <trace>: the script holds "seed count"
    if (argc < 3) { fprintf(stderr, "usage: codecdrive script trace\n"); return 2; }
    trace_fd = open(argv[2], O_WRONLY | O_CREAT | O_APPEND, 0644);
    if (trace_fd < 0) { perror("trace"); return 2; }
    long seedv = 1, count = 1000;
    { FILE* sf = fopen(argv[1], "r"); if (!sf || fscanf(sf, "%ld %ld", &seedv, &count) != 2) { fprintf(stderr, "codecdrive: bad script\n"); return 2; } fclose(sf); }
    rs ^= (unsigned long) seedv * 0x9E3779B97F4A7C15UL;
    signal(SIGSEGV, crash_handler); signal(SIGABRT, crash_handler); signal(SIGFPE, crash_handler);
    emit("{\"e\":\"Reset\"}");
    MEDDLY::initialize();
    int b[1] = { 2 };
    domain* D = domain::createBottomUp(b, 1);
    FI = forest::create(D, false, range_type::INTEGER, edge_labeling::MULTI_TERMINAL);
    FR = forest::create(D, false, range_type::REAL, edge_labeling::MULTI_TERMINAL);
    FB = forest::create(D, false, range_type::BOOLEAN, edge_labeling::MULTI_TERMINAL);
    FP = forest::create(D, false, range_type::INTEGER, edge_labeling::EVPLUS);

    do_bool(false); do_bool(true);

    // integers: boundaries of the documented range and just outside, powers of two +-1
    const long Q = 1L << 30;
    std::vector<long> iv;
    long base[] = { 0, 1, -1, 2, -2, Q-1, Q, Q+1, -Q, -Q-1, -Q+1, Q-2, 2147483647L, -2147483647L, 2*Q-2, -2*Q+2 };
    for (size_t i=0; i<sizeof(base)/sizeof(long); i++) iv.push_back(base[i]);
    for (int k=1; k<31; k++) { iv.push_back(1L<<k); iv.push_back((1L<<k)-1); iv.push_back((1L<<k)+1);
                               iv.push_back(-(1L<<k)); iv.push_back(-(1L<<k)-1); iv.push_back(-(1L<<k)+1); }
    for (size_t i=0; i<iv.size(); i++) if (iv[i] >= -2147483647L && iv[i] <= 2147483647L) do_int(iv[i]);
    for (long i=0; i<count; i++) {
        unsigned long x = rnd();
        long v = long(int(x & 0xffffffffUL));
        if (v == -2147483648L) v = 0;
        // bias half of the samples toward the valid range and its edges
        if (i & 1) v = (v % (Q + 5));
        do_int(v);
    }
    // constants through the forests (valid range only, plus EV+ infinity)
    do_const(0, false); do_const(1, false); do_const(-1, false); do_const(Q-1, false); do_const(-Q, false);
    do_const(0, true);
    for (int i=0; i<200; i++) do_const(long(int(rnd() & 0x3fffffffUL)) - (Q>>1), false);

    // reals: every exponent x a mantissa sample, signed zeros, subnormals, infinities, largest finite
    int rb[] = { 0, int(0x80000000U), 1, 2, 3, int(0x80000001U), int(0x80000002U), 0x007fffff, 0x00800000, 0x7f7fffff, int(0xff7fffffU),
                 0x7f800000, int(0xff800000U), 0x3f800000, int(0xbf800000U), 0x3f800001, 0x3f800002, 0x3effffff };
    for (size_t i=0; i<sizeof(rb)/sizeof(int); i++) do_real(rb[i]);
    for (int ex=0; ex<255; ex++) {
        int mant[] = { 0, 1, 2, 3, 0x400000, 0x7ffffe, 0x7fffff, int(rnd() & 0x7fffff), int(rnd() & 0x7fffff) };
        for (size_t i=0; i<sizeof(mant)/sizeof(int); i++) {
            do_real((ex << 23) | mant[i]);
            do_real(int(0x80000000U | unsigned((ex << 23) | mant[i])));
        }
    }
    for (long i=0; i<count; i++) {
        unsigned x = unsigned(rnd());
        if (((x >> 23) & 0xff) == 0xff && (x & 0x7fffff)) continue;     // NaN: outside the property
        do_real(int(x));
    }
    emit("{\"e\":\"End\"}");
    flush();
    close(trace_fd);
    _exit(0);
}
