// mdrive: script interpreter for the real MEDDLY library.
//
//   mdrive <script> <trace.ndjson> [lifecycle]
//
// Executes one script (one "execution") of API calls against the library built
// from /repo's working tree and records, as NDJSON, exactly what the library
// did: for every command its arguments, the outcome (ok / error code), and a
// projection of the real state (function table of the result obtained by
// evaluate() at every point, edge identity, counts, node snapshots, lifecycle
// events delivered through the MEDDLY_VERIF observer).  The driver never judges:
// every line is validated by TLC against the TLA+ specification.
//
// Script syntax: one command per line, blank-separated tokens; see DESIGN.md §3
// and the dispatch table at the bottom of this file.

#include "meddly.h"
#include "io_mdds.h"
#include "sat_relations.h"
#include "oper_satur.h"
#include "compute_table.h"
#include "unique_table.h"
#include "ct_initializer.h"

#include <cstdio>
#include <cstdlib>
#include <cstring>
#include <cmath>
#include <csignal>
#include <string>
#include <vector>
#include <map>
#include <sstream>
#include <fstream>
#include <iostream>
#include <unistd.h>
#include <fcntl.h>
#include <gmp.h>

using namespace MEDDLY;

static const long INF   = 1L<<30;       // +infinity in traces and in the spec
static const long OFFG  = (1L<<30)+1;   // real value off the dyadic grid / out of range
static const double SCALE = 64.0;

// ---------------------------------------------------------------------------
// output
// ---------------------------------------------------------------------------
static int   trace_fd = -1;
static std::string linebuf;
static char  curcmd[4096];
static long  seqno = 0;

static void flush_line()
{
    linebuf.push_back('\n');
    const char* p = linebuf.data();
    size_t n = linebuf.size();
    while (n) {
        ssize_t w = write(trace_fd, p, n);
        if (w <= 0) _exit(4);
        p += w; n -= size_t(w);
    }
    linebuf.clear();
}

static bool any_call_failed = false;   // some recorded call ended with ok=0

struct J {
    // tiny JSON object writer with its own buffer (lifecycle events are
    // written while a command's own line is still being assembled); the
    // sequence number is assigned when the line is written
    std::string b;
    J(const char* ev) {
        b = "{\"e\":\""; b += ev; b += "\"";
    }
    void key(const char* k) { b += ",\""; b += k; b += "\":"; }
    J& i(const char* k, long v) {
        if (0 == v && 0 == strcmp(k, "ok")) any_call_failed = true;
        key(k); b += std::to_string(v); return *this;
    }
    J& s(const char* k, const std::string &v) { key(k); b += '"'; b += v; b += '"'; return *this; }
    J& raw(const char* k, const std::string &v) { key(k); b += v; return *this; }
    J& arr(const char* k, const std::vector<long> &v) {
        key(k); b += '[';
        for (size_t x=0; x<v.size(); x++) { if (x) b += ','; b += std::to_string(v[x]); }
        b += ']'; return *this;
    }
    void done() {
        key("q"); b += std::to_string(++seqno); b += '}';
        linebuf = b; flush_line();
    }
};

static std::string jarr(const std::vector<long> &v)
{
    std::string s = "[";
    for (size_t x=0; x<v.size(); x++) { if (x) s += ','; s += std::to_string(v[x]); }
    s += ']';
    return s;
}

static void crash_handler(int sig)
{
    // async-signal-safe: only write() and _exit()
    char buf[4600];
    int n = snprintf(buf, sizeof(buf), "{\"e\":\"Crash\",\"q\":%ld,\"sig\":%d,\"cmd\":\"%s\"}\n",
            seqno+1, sig, curcmd);
    if (n > 0) { ssize_t w = write(trace_fd, buf, size_t(n)); (void) w; }
    _exit(3);
}

static void term_handler()
{
    crash_handler(99);
}

struct harness_error {
    std::string what;
    harness_error(const std::string &w) : what(w) { }
};

// ---------------------------------------------------------------------------
// state
// ---------------------------------------------------------------------------
struct Dom {
    domain* d; std::vector<int> sizes; bool alive;  // sizes[1..K]
    Dom() : d(nullptr), alive(false) { }
};
struct For {
    forest* f; int d; bool rel; char rng; std::string lab; char rule; bool alive; unsigned fid;
    For() : f(nullptr), d(-1), rel(false), rng('B'), rule('F'), alive(false), fid(0) { }
};
static std::map<int, Dom> doms;
static std::map<int, For> fors;
static std::map<int, dd_edge*> edges;
static std::map<int, std::string> blobs;
static bool lib_running = false;
static bool want_lifecycle = false;

static const char* errname(error::code c)
{
    switch (c) {
        case error::UNINITIALIZED: return "UNINITIALIZED";
        case error::ALREADY_INITIALIZED: return "ALREADY_INITIALIZED";
        case error::NOT_IMPLEMENTED: return "NOT_IMPLEMENTED";
        case error::INSUFFICIENT_MEMORY: return "INSUFFICIENT_MEMORY";
        case error::INVALID_OPERATION: return "INVALID_OPERATION";
        case error::INVALID_VARIABLE: return "INVALID_VARIABLE";
        case error::INVALID_LEVEL: return "INVALID_LEVEL";
        case error::INVALID_BOUND: return "INVALID_BOUND";
        case error::INVALID_ITERATOR: return "INVALID_ITERATOR";
        case error::DOMAIN_NOT_EMPTY: return "DOMAIN_NOT_EMPTY";
        case error::UNKNOWN_OPERATION: return "UNKNOWN_OPERATION";
        case error::DOMAIN_MISMATCH: return "DOMAIN_MISMATCH";
        case error::FOREST_MISMATCH: return "FOREST_MISMATCH";
        case error::TYPE_MISMATCH: return "TYPE_MISMATCH";
        case error::WRONG_NUMBER: return "WRONG_NUMBER";
        case error::VALUE_OVERFLOW: return "VALUE_OVERFLOW";
        case error::DIVIDE_BY_ZERO: return "DIVIDE_BY_ZERO";
        case error::SUBTRACT_INFINITY: return "SUBTRACT_INFINITY";
        case error::INFINITY_DIV_INFINITY: return "INFINITY_DIV_INFINITY";
        case error::INVALID_POLICY: return "INVALID_POLICY";
        case error::INVALID_ASSIGNMENT: return "INVALID_ASSIGNMENT";
        case error::INVALID_ARGUMENT: return "INVALID_ARGUMENT";
        case error::INVALID_OPTION: return "INVALID_OPTION";
        case error::INVALID_FILE: return "INVALID_FILE";
        case error::COULDNT_READ: return "COULDNT_READ";
        case error::COULDNT_WRITE: return "COULDNT_WRITE";
        case error::MISCELLANEOUS: return "MISCELLANEOUS";
        default: return "UNKNOWN";
    }
}

// ---------------------------------------------------------------------------
// lifecycle tracer
// ---------------------------------------------------------------------------
struct Tracer : public verif_tracer {
    std::map<const void*, int> ctids;
    virtual void newNode(unsigned fid, long h) {
        J j("NewNode"); j.i("f", fid).i("h", h); j.done();
    }
    virtual void delNode(unsigned fid, long h) {
        J j("DelNode"); j.i("f", fid).i("h", h); j.done();
    }
    virtual void recycleHandle(unsigned fid, long h) {
        J j("Recycle"); j.i("f", fid).i("h", h); j.done();
    }
    virtual void ctEvent(int kind, const void* ct, unsigned etid,
            unsigned long id, const long* fn, unsigned n)
    {
        static const char* names[] = { "CTAdd", "CTHit", "CTDel" };
        int cid;
        std::map<const void*, int>::iterator it = ctids.find(ct);
        if (it == ctids.end()) { cid = int(ctids.size())+1; ctids[ct] = cid; }
        else cid = it->second;
        J j(names[kind]);
        // entry identity: (table, chunk handle); chunk handles of the malloc
        // style are pointers, so split into two words that fit TLC integers
        j.i("ct", cid).i("et", etid).i("id0", long(id & 0xffffffUL)).i("id1", long((id>>24) & 0xffffffUL)).i("id2", long(id>>48));
        std::string s = "[";
        for (unsigned k=0; k<n; k++) {
            if (k) s += ',';
            s += '['; s += std::to_string(fn[2*k]); s += ','; s += std::to_string(fn[2*k+1]); s += ']';
        }
        s += ']';
        j.raw("n", s);
        j.done();
    }
};
static Tracer the_tracer;

// ---------------------------------------------------------------------------
// helpers: values
// ---------------------------------------------------------------------------
static long scaled(double v)
{
    double s = v * SCALE;
    if (!(std::fabs(s) < double(1L<<29))) return OFFG;
    long l = long(s);
    if (double(l) != s) return OFFG;
    return l;
}

static long rv2long(const rangeval &v)
{
    if (v.isPlusInfinity()) return INF;
    if (v.isBoolean()) return bool(v) ? 1 : 0;
    if (v.isInteger()) {
        long l = long(v);
        if (l >= INF || l <= -INF) return OFFG;
        return l;
    }
    return scaled(double(v));
}

static long parse_val(const std::string &t)
{
    if (t == "inf") return INF;
    return atol(t.c_str());
}

static rangeval mkval(const For &F, long v)
{
    if (v == INF) {
        return rangeval(range_special::PLUS_INFINITY,
                F.rng=='B' ? range_type::BOOLEAN : (F.rng=='I' ? range_type::INTEGER : range_type::REAL));
    }
    switch (F.rng) {
        case 'B':   return rangeval(v != 0);
        case 'I':   return rangeval(long(v));
        default:    return rangeval(double(v) / SCALE);
    }
}

// typed value for deliberate type misuse: T<type><value>
static rangeval mkval_typed(const For &F, const std::string &t)
{
    if (t.size() > 1 && t[0]=='T') {
        long v = parse_val(t.substr(2));
        For G = F; G.rng = t[1];
        return mkval(G, v);
    }
    return mkval(F, parse_val(t));
}

static For& getF(int f)
{
    std::map<int,For>::iterator it = fors.find(f);
    if (it == fors.end()) throw harness_error("no forest " + std::to_string(f));
    return it->second;
}
static Dom& getD(int d)
{
    std::map<int,Dom>::iterator it = doms.find(d);
    if (it == doms.end()) throw harness_error("no domain " + std::to_string(d));
    return it->second;
}
static dd_edge& getE(int e)
{
    std::map<int,dd_edge*>::iterator it = edges.find(e);
    if (it == edges.end() || !it->second) throw harness_error("no edge " + std::to_string(e));
    return *(it->second);
}

// harness index of the forest an edge is attached to (-1: detached)
static int forestIndexOf(const dd_edge &e)
{
    if (!lib_running) return -1;
    forest* f = e.getForest();
    if (!f) return -1;
    for (std::map<int,For>::iterator it=fors.begin(); it!=fors.end(); ++it) {
        if (it->second.alive && it->second.f == f) return it->first;
    }
    return -2;  // attached to a forest the harness does not know (e.g. created by reader)
}

static long npoints(const For &F)
{
    const Dom &D = getD(F.d);
    long n = 1;
    for (size_t k=1; k<D.sizes.size(); k++) {
        const long sk = (F.alive && F.f) ? long(F.f->getLevelSize(int(k))) : long(D.sizes[k]);
        n *= sk;
        if (F.rel) n *= sk;
    }
    return n;
}

// fill minterm from rank (level K most significant; for relations the
// digit order is x_K, x'_K, ..., x_1, x'_1)
static void rank2minterm(const For &F, long r, minterm &m)
{
    const Dom &D = getD(F.d);
    const int K = int(D.sizes.size())-1;
    for (int k=1; k<=K; k++) {
        // size of *level* k (the forest may have reordered its variables)
        const int s = (F.alive && F.f) ? F.f->getLevelSize(k) : D.sizes[k];
        if (F.rel) {
            int pr = int(r % s); r /= s;
            int un = int(r % s); r /= s;
            m.setVars(unsigned(k), un, pr);
        } else {
            int un = int(r % s); r /= s;
            m.setVar(unsigned(k), un);
        }
    }
}

static long minterm2rank(const For &F, const minterm &m)
{
    const Dom &D = getD(F.d);
    const int K = int(D.sizes.size())-1;
    long r = 0;
    for (int k=K; k>=1; k--) {
        const int s = (F.alive && F.f) ? F.f->getLevelSize(k) : D.sizes[k];
        if (F.rel) {
            r = (r * s + m.from(unsigned(k))) * s + m.to(unsigned(k));
        } else {
            r = r * s + m.from(unsigned(k));
        }
    }
    return r;
}

// exact 64-bit fingerprint of a function table (FNV-1a over the exact values,
// including those too wide or too fine for the integer encoding of the trace)
static unsigned long last_table_hash = 0;

static void table_of(const For &F, const dd_edge &e, std::vector<long> &fn)
{
    const long N = npoints(F);
    fn.resize(size_t(N));
    minterm m(F.f);
    unsigned long h = 1469598103934665603UL;
    for (long r=0; r<N; r++) {
        rank2minterm(F, r, m);
        rangeval v;
        e.evaluate(m, v);
        fn[size_t(r)] = rv2long(v);
        unsigned long bits;
        if (v.isPlusInfinity()) bits = 0x7ff1000000000001UL;
        else if (v.isBoolean()) bits = bool(v) ? 1 : 0;
        else if (v.isInteger()) bits = (unsigned long) long(v);
        else { double d = double(v); if (d == 0.0) d = 0.0; memcpy(&bits, &d, 8); }
        for (int b=0; b<8; b++) { h ^= (bits >> (8*b)) & 0xff; h *= 1099511628211UL; }
    }
    last_table_hash = h;
}

static std::string hash_words(unsigned long h)
{
    return "[" + std::to_string(h & 0xffffffUL) + "," + std::to_string((h>>24) & 0xffffffUL) + "," + std::to_string(h>>48) + "]";
}

static void ev2words(const edge_value &ev, std::vector<long> &w)
{
    unsigned long bits = 0;
    if (ev.isVoid()) bits = 0;
    else if (ev.isInt()) bits = (unsigned long)(long(int(ev)));
    else if (ev.isLong()) bits = (unsigned long)(long(ev));
    else if (ev.isFloat()) { float f = float(ev); unsigned u; memcpy(&u, &f, 4); bits = u; }
    else { double d = double(ev); memcpy(&bits, &d, 8); }
    w.push_back(long(bits & 0xffffffUL));
    w.push_back(long((bits>>24) & 0xffffffUL));
    w.push_back(long(bits>>48));
    // the type of the edge value is part of an edge's identity (dd_edge::operator==)
    w.push_back(ev.isVoid() ? 0 : ev.isInt() ? 1 : ev.isLong() ? 2 : ev.isFloat() ? 3 : 4);
}

static long ev2long(const edge_value &ev)
{
    if (ev.isVoid()) return 0;
    if (ev.isInt()) return int(ev);
    if (ev.isLong()) { long l = long(ev); if (l>=INF || l<=-INF) return OFFG; return l; }
    if (ev.isFloat()) return scaled(float(ev));
    return scaled(double(ev));
}

// describe an edge: {"s":slot,"f":forest index,"fn":[..],"id":[node,w0,w1,w2],"nc":..,"ec":..,"ecz":..}
// If the library throws while the edge is being observed (evaluate, counts),
// the observation records that fact ("oerr") instead of a table: the call that
// produced the edge has already returned normally at this point.
static std::string describe(int slot, const dd_edge &e, bool counts)
{
    std::string s = "{\"s\":" + std::to_string(slot);
    int fi = forestIndexOf(e);
    s += ",\"f\":" + std::to_string(fi);
    if (fi >= 0) {
        const For &F = getF(fi);
        std::vector<long> id;
        id.push_back(e.getNode());
        ev2words(e.getEdgeValue(), id);
        s += ",\"id\":" + jarr(id);
        try {
            std::vector<long> fn;
            table_of(F, e, fn);
            s += ",\"fn\":" + jarr(fn);
            s += ",\"fh\":" + hash_words(last_table_hash);
            if (counts) {
                s += ",\"nc\":" + std::to_string(e.getNodeCount());
                s += ",\"ec\":" + std::to_string(e.getEdgeCount(false));
                s += ",\"ecz\":" + std::to_string(e.getEdgeCount(true));
            }
        } catch (error er) {
            s += ",\"oerr\":\"" + std::string(errname(er.getCode())) + "\"";
        }
    }
    s += "}";
    return s;
}

// ---------------------------------------------------------------------------
// tokenizer
// ---------------------------------------------------------------------------
struct Toks {
    std::vector<std::string> t; size_t p;
    Toks() : p(0) { }
    bool more() const { return p < t.size(); }
    const std::string& next() {
        if (p >= t.size()) throw harness_error("missing token");
        return t[p++];
    }
    long nextl() { return parse_val(next()); }
    int nexti() { return int(parse_val(next())); }
};

// ---------------------------------------------------------------------------
// user-defined unary catalogue (mirrored in spec/MddFun.tla: UserMap)
// ---------------------------------------------------------------------------
static void uu_abs(const rangeval &x, rangeval &y)
{
    if (x.isPlusInfinity()) { y = x; return; }
    if (x.isInteger()) { long v = long(x); y = (v<0) ? -v : v; }
    else { double v = double(x); y = (v<0) ? -v : v; }
}
static void uu_neg(const rangeval &x, rangeval &y)
{
    if (x.isPlusInfinity()) { y = x; return; }
    if (x.isInteger()) y = -long(x); else y = -double(x);
}
static void uu_even(const rangeval &x, rangeval &y)
{
    if (x.isPlusInfinity()) { y = false; return; }
    if (x.isInteger()) y = (long(x) % 2 == 0);
    else { double hx = double(x)/2.0; y = (double(long(hx)) == hx); }
}
static void uu_inc3(const rangeval &x, rangeval &y)
{
    if (x.isPlusInfinity()) { y = x; return; }
    if (x.isInteger()) y = long(x)+3; else y = double(x)+3.0;
}
static void uu_sq(const rangeval &x, rangeval &y)
{
    if (x.isPlusInfinity()) { y = x; return; }
    if (x.isInteger()) y = long(x)*long(x); else y = double(x)*double(x);
}
static void uu_ispos(const rangeval &x, rangeval &y)
{
    if (x.isPlusInfinity()) { y = true; return; }
    if (x.isInteger()) y = (long(x) > 0); else y = (double(x) > 0);
}
static user_unary_factory* UU_ABS = nullptr;
static user_unary_factory* UU_NEG = nullptr;
static user_unary_factory* UU_EVEN = nullptr;
static user_unary_factory* UU_INC3 = nullptr;
static user_unary_factory* UU_SQ = nullptr;
static user_unary_factory* UU_ISPOS = nullptr;

static void make_user_factories()
{
    UU_ABS = new user_unary_factory("VAbs", uu_abs);
    UU_NEG = new user_unary_factory("VNeg", uu_neg);
    UU_EVEN = new user_unary_factory("VEven", uu_even);
    UU_INC3 = new user_unary_factory("VInc3", uu_inc3);
    UU_SQ = new user_unary_factory("VSq", uu_sq);
    UU_ISPOS = new user_unary_factory("VIsPos", uu_ispos);
}
static void drop_user_factories()
{
    delete UU_ABS; delete UU_NEG; delete UU_EVEN; delete UU_INC3; delete UU_SQ; delete UU_ISPOS;
    UU_ABS = UU_NEG = UU_EVEN = UU_INC3 = UU_SQ = UU_ISPOS = nullptr;
}

static unary_factory& unary_by_name(const std::string &n)
{
    if (n=="COMPLEMENT") return COMPLEMENT();
    if (n=="COPY") return COPY();
    if (n=="DIST_INC") return DIST_INC();
    if (n=="TOINDEX") return CONVERT_TO_INDEX_SET();
    if (n=="U_ABS") return *UU_ABS;
    if (n=="U_NEG") return *UU_NEG;
    if (n=="U_EVEN") return *UU_EVEN;
    if (n=="U_INC3") return *UU_INC3;
    if (n=="U_SQ") return *UU_SQ;
    if (n=="U_ISPOS") return *UU_ISPOS;
    throw harness_error("unknown unary " + n);
}

static binary_factory& binary_by_name(const std::string &n)
{
    if (n=="UNION") return UNION();
    if (n=="INTERSECTION") return INTERSECTION();
    if (n=="DIFFERENCE") return DIFFERENCE();
    if (n=="CROSS") return CROSS();
    if (n=="MAXIMUM") return MAXIMUM();
    if (n=="MINIMUM") return MINIMUM();
    if (n=="DIST_MIN") return DIST_MIN();
    if (n=="PLUS") return PLUS();
    if (n=="MINUS") return MINUS();
    if (n=="MULTIPLY") return MULTIPLY();
    if (n=="DIVIDE") return DIVIDE();
    if (n=="MODULO") return MODULO();
    if (n=="EQUAL") return EQUAL();
    if (n=="NOT_EQUAL") return NOT_EQUAL();
    if (n=="LESS_THAN") return LESS_THAN();
    if (n=="LESS_THAN_EQUAL") return LESS_THAN_EQUAL();
    if (n=="GREATER_THAN") return GREATER_THAN();
    if (n=="GREATER_THAN_EQUAL") return GREATER_THAN_EQUAL();
    if (n=="PRE_IMAGE") return PRE_IMAGE();
    if (n=="POST_IMAGE") return POST_IMAGE();
    if (n=="VM_MULTIPLY") return VM_MULTIPLY();
    if (n=="MV_MULTIPLY") return MV_MULTIPLY();
    if (n=="REACH_FS_F") return REACHABLE_TRAD_FS(true);
    if (n=="REACH_FS_B") return REACHABLE_TRAD_FS(false);
    if (n=="REACH_NOFS_F") return REACHABLE_TRAD_NOFS(true);
    if (n=="REACH_NOFS_B") return REACHABLE_TRAD_NOFS(false);
    if (n=="REACH_SAT_F") return REACHABLE_SATUR(true);
    if (n=="REACH_SAT_B") return REACHABLE_SATUR(false);
    throw harness_error("unknown binary " + n);
}

// ---------------------------------------------------------------------------
// snapshot of a forest (store-level projection through public interfaces
// plus the two guarded accessors)
// ---------------------------------------------------------------------------
static bool same_content(const unpacked_node* A, const unpacked_node* B, const forest* f)
{
    // compare two views of a node as maps index -> (down, ev), ignoring
    // transparent entries
    std::map<unsigned, std::pair<long,long> > ma, mb;
    const unpacked_node* U[2] = { A, B };
    std::map<unsigned, std::pair<long,long> >* M[2] = { &ma, &mb };
    for (int w=0; w<2; w++) {
        for (unsigned z=0; z<U[w]->getSize(); z++) {
            unsigned idx = U[w]->isSparse() ? U[w]->index(z) : z;
            long d = U[w]->down(z);
            long ev = U[w]->hasEdges() ? ev2long(U[w]->edgeval(z)) : 0;
            if (d == 0 && (!U[w]->hasEdges() || f->isTransparentEdge(U[w]->edgeval(z), 0))) continue;
            (*M[w])[idx] = std::make_pair(d, ev);
        }
    }
    return ma == mb;
}

static long term_value(const For &F, node_handle d)
{
    if (F.lab != "MT") return 0;
    if (F.rng == 'B') return F.f->getBooleanFromHandle(d) ? 1 : 0;
    if (F.rng == 'I') { long v = F.f->getIntegerFromHandle(d); if (v>=INF||v<=-INF) return OFFG; return v; }
    return scaled(F.f->getRealFromHandle(d));
}

static void do_snap(int fi)
{
    For &F = getF(fi);
    if (!F.alive) throw harness_error("snap of dead forest");
    forest* f = F.f;
    const Dom &D = getD(F.d);
    const int K = int(D.sizes.size())-1;
    const node_handle last = f->getLastNode();

    std::vector<unsigned> build(size_t(last)+2, 0);
    unpacked_node::AddToIncomingCounts(f, build);
    std::vector<unsigned long> ctc(size_t(last)+2, 0);
    compute_table::countAllNodeEntries(f, ctc);

    std::string nodes = "[";
    std::string zomb = "[";
    long nactive = 0;
    bool firstn = true, firstz = true;
    for (node_handle h=1; h<=last; h++) {
        if (!f->isActiveNode(h)) {
            unsigned long cc = f->verifCacheCount(h);
            if (cc) {
                if (!firstz) zomb += ',';
                firstz = false;
                zomb += '[' + std::to_string(h) + ',' + std::to_string(cc) + ',' + std::to_string(h < long(ctc.size()) ? ctc[size_t(h)] : 0) + ']';
            }
            continue;
        }
        nactive++;
        unpacked_node* UF = unpacked_node::newFromNode(f, h, FULL_ONLY);
        unpacked_node* US = unpacked_node::newFromNode(f, h, SPARSE_ONLY);
        unpacked_node* UE = unpacked_node::newFromNode(f, h, FULL_OR_SPARSE);
        UF->computeHash(); US->computeHash(); UE->computeHash();
        const int lvl = f->getNodeLevel(h);
        const int var = f->getVarByLevel(lvl);
        long sv = (same_content(UF, US, f) && same_content(UF, UE, f)) ? 1 : 0;
        long hv = (UF->hash() == US->hash() && UF->hash() == UE->hash() && UF->hash() == f->hashNode(h)) ? 1 : 0;
        long ff = (f->getUT()->find(*UF, var) == h) ? 1 : 0;
        long fs = (f->getUT()->find(*US, var) == h) ? 1 : 0;
        unsigned sidx = 0; node_handle sdown = 0;
        long sing = f->isSingletonNode(h, sidx, sdown) ? long(sidx) : -1;
        if (!firstn) nodes += ',';
        firstn = false;
        nodes += "{\"h\":" + std::to_string(h) + ",\"l\":" + std::to_string(lvl)
              +  ",\"inc\":" + std::to_string(f->getNodeInCount(h))
              +  ",\"cc\":" + std::to_string(f->verifCacheCount(h))
              +  ",\"ctc\":" + std::to_string(ctc[size_t(h)])
              +  ",\"bl\":" + std::to_string(build[size_t(h)])
              +  ",\"sv\":" + std::to_string(sv) + ",\"hv\":" + std::to_string(hv)
              +  ",\"ff\":" + std::to_string(ff) + ",\"fs\":" + std::to_string(fs)
              +  ",\"sg\":" + std::to_string(sing)
              +  ",\"sz\":" + std::to_string(UF->getSize())
              +  ",\"c\":[";
        bool firstc = true;
        for (unsigned z=0; z<UF->getSize(); z++) {
            long d = UF->down(z);
            long ev = UF->hasEdges() ? ev2long(UF->edgeval(z)) : 0;
            bool transparent = (d == 0) && (!UF->hasEdges() || f->isTransparentEdge(UF->edgeval(z), 0));
            if (transparent) continue;
            if (!firstc) nodes += ',';
            firstc = false;
            long tv = (d <= 0) ? term_value(F, node_handle(d)) : 0;
            nodes += '[' + std::to_string(z) + ',' + std::to_string(d) + ',' + std::to_string(ev) + ',' + std::to_string(tv) + ']';
        }
        nodes += "]}";
        unpacked_node::Recycle(UF);
        unpacked_node::Recycle(US);
        unpacked_node::Recycle(UE);
    }
    nodes += ']';
    zomb += ']';

    std::vector< std::pair<node_handle, edge_value> > R;
    f->verifRoots(R);
    std::vector<long> roots;
    for (size_t i=0; i<R.size(); i++) roots.push_back(R[i].first);

    std::vector<long> ut;
    long utsum = 0;
    for (int v=(F.rel ? -K : 1); v<=K; v++) {
        if (v==0) continue;
        long n = f->getUT()->getNumEntries(v);
        ut.push_back(n); utsum += n;
    }
    std::vector<long> l2v;
    for (int k=1; k<=K; k++) l2v.push_back(f->getVarByLevel(k));

    // every live dd_edge of the harness attached to this forest
    std::string eds = "[";
    {
        bool firste = true;
        for (std::map<int,dd_edge*>::iterator it=edges.begin(); it!=edges.end(); ++it) {
            if (!it->second) continue;
            const dd_edge &e = *(it->second);
            if (e.getForest() != f) continue;
            if (!firste) eds += ',';
            firste = false;
            eds += "{\"s\":" + std::to_string(it->first) + ",\"n\":" + std::to_string(e.getNode())
                + ",\"ev\":" + std::to_string(ev2long(e.getEdgeValue()))
                + ",\"tv\":" + std::to_string(e.getNode() <= 0 ? term_value(F, e.getNode()) : 0);
            try {
                std::vector<long> fn;
                table_of(F, e, fn);
                eds += ",\"fn\":" + jarr(fn);
                eds += ",\"fh\":" + hash_words(last_table_hash);
                eds += ",\"nc\":" + std::to_string(e.getNodeCount());
                eds += ",\"ec\":" + std::to_string(e.getEdgeCount(false));
                eds += ",\"ecz\":" + std::to_string(e.getEdgeCount(true));
            } catch (error er) {
                eds += ",\"oerr\":\"" + std::string(errname(er.getCode())) + "\"";
            }
            eds += "}";
        }
    }
    eds += "]";

    J j("Snap");
    j.i("f", fi).i("fid", F.fid).i("last", last).i("active", nactive)
     .i("nn", f->getCurrentNumNodes()).i("utsum", utsum)
     .arr("ut", ut).arr("roots", roots).arr("l2v", l2v)
     .raw("nodes", nodes).raw("zomb", zomb).raw("edges", eds);
    j.done();
}

// ---------------------------------------------------------------------------
// commands
// ---------------------------------------------------------------------------
static int ct_style = -1, ct_stale = -1; static long ct_max = -1;

static void cmd_init(Toks &)
{
    J j("Init");
    try {
        initializer_list* IL = defaultInitializerList(nullptr);
        if (ct_style >= 0) {
            static const ct_initializer::builtinCTstyle S[4] = {
                ct_initializer::MonolithicChainedHash, ct_initializer::MonolithicUnchainedHash,
                ct_initializer::OperationChainedHash, ct_initializer::OperationUnchainedHash };
            ct_initializer::setBuiltinStyle(S[ct_style]);
        }
        if (ct_stale >= 0) {
            static const staleRemovalOption R[3] = { staleRemovalOption::Aggressive,
                staleRemovalOption::Moderate, staleRemovalOption::Lazy };
            ct_initializer::setStaleRemoval(R[ct_stale]);
        }
        if (ct_max > 0) ct_initializer::setMaxSize((unsigned long) ct_max);
        MEDDLY::initialize(IL);
        lib_running = true;
        make_user_factories();
        if (want_lifecycle) the_verif_tracer = &the_tracer;
        j.i("ok", 1).i("cts", ct_style).i("stale", ct_stale).i("max", ct_max).i("life", want_lifecycle ? 1 : 0);
    } catch (error e) {
        j.i("ok", 0).s("err", errname(e.getCode()));
    }
    j.done();
}

static void cmd_cleanup(Toks &)
{
    J j("Cleanup");
    try {
        // the harness owns the dd_edge objects; the library detaches them
        drop_user_factories();
        MEDDLY::cleanup();
        lib_running = false;
        for (std::map<int,For>::iterator it=fors.begin(); it!=fors.end(); ++it) it->second.alive = false;
        for (std::map<int,Dom>::iterator it=doms.begin(); it!=doms.end(); ++it) it->second.alive = false;
        j.i("ok", 1);
    } catch (error e) {
        j.i("ok", 0).s("err", errname(e.getCode()));
    }
    j.done();
}

static void cmd_ct(Toks &T)
{
    ct_style = T.nexti(); ct_stale = T.nexti(); ct_max = T.nextl();
}

static void cmd_dom(Toks &T)
{
    int d = T.nexti(); int K = T.nexti();
    std::vector<int> sizes(size_t(K)+1, 0);
    for (int k=1; k<=K; k++) sizes[size_t(k)] = T.nexti();
    J j("Dom");
    std::vector<long> sz; for (int k=1; k<=K; k++) sz.push_back(sizes[size_t(k)]);
    j.i("d", d).arr("sizes", sz);
    try {
        Dom D; D.sizes = sizes;
        D.d = domain::createBottomUp(&sizes[1], unsigned(K));
        D.alive = true;
        doms[d] = D;
        j.i("ok", 1);
    } catch (error e) {
        j.i("ok", 0).s("err", errname(e.getCode()));
    }
    j.done();
}

static void mark_dead_forests_of_domain(int d)
{
    for (std::map<int,For>::iterator it=fors.begin(); it!=fors.end(); ++it)
        if (it->second.d == d) it->second.alive = false;
}

static void cmd_ddom(Toks &T)
{
    int d = T.nexti();
    J j("DDom"); j.i("d", d);
    try {
        Dom &D = getD(d);
        domain::destroy(D.d);
        D.alive = false;
        mark_dead_forests_of_domain(d);
        j.i("ok", 1);
    } catch (error e) {
        j.i("ok", 0).s("err", errname(e.getCode()));
    }
    j.done();
}

static void cmd_for(Toks &T)
{
    int fi = T.nexti(); int d = T.nexti();
    std::string sr = T.next(), rng = T.next(), lab = T.next(), rule = T.next();
    std::string sto = T.more() ? T.next() : "E";
    std::string mm  = T.more() ? T.next() : "OG";
    std::string del = T.more() ? T.next() : "O";
    std::string swp = T.more() ? T.next() : "V";
    std::string heur = T.more() ? T.next() : "SD";
    J j("For");
    j.i("f", fi).i("d", d).i("rel", sr=="R").s("rng", rng).s("lab", lab).s("rule", rule)
     .s("sto", sto).s("mm", mm).s("del", del).s("swp", swp).s("heur", heur);
    try {
        Dom &D = getD(d);
        For F; F.d = d; F.rel = (sr=="R"); F.rng = rng[0]; F.lab = lab; F.rule = rule[0];
        policies p(F.rel);
        if (rule=="F") p.setFullyReduced(); else if (rule=="Q") p.setQuasiReduced(); else p.setIdentityReduced();
        if (sto=="F") p.setFullStorage(); else if (sto=="S") p.setSparseStorage(); else p.setFullOrSparse();
        if (mm=="OG") p.nodemm = ORIGINAL_GRID; else if (mm=="AG") p.nodemm = ARRAY_PLUS_GRID;
        else if (mm=="MA") p.nodemm = MALLOC_MANAGER; else if (mm=="HE") p.nodemm = HEAP_MANAGER;
        else if (mm=="FL") p.nodemm = FREELISTS;
        if (del=="O") p.setOptimistic(); else if (del=="P") p.setPessimistic(); else p.setNeverDelete();
        if (swp=="V") p.setVarSwap(); else p.setLevelSwap();
        if (heur=="LI") p.setLowestInversion(); else if (heur=="HI") p.setHighestInversion();
        else if (heur=="SD") p.setSinkDown(); else if (heur=="BU") p.setBringUp();
        else if (heur=="LC") p.setLowestCost(); else if (heur=="LM") p.setLowestMemory();
        else if (heur=="RA") p.setRandom(); else if (heur=="LA") p.setLARC();
        range_type rt = F.rng=='B' ? range_type::BOOLEAN : (F.rng=='I' ? range_type::INTEGER : range_type::REAL);
        edge_labeling el = lab=="MT" ? edge_labeling::MULTI_TERMINAL :
                           lab=="EP" ? edge_labeling::EVPLUS :
                           lab=="IX" ? edge_labeling::INDEX_SET : edge_labeling::EVTIMES;
        F.f = forest::create(D.d, F.rel, rt, el, p);
        if (!F.f) throw error(error::MISCELLANEOUS, __FILE__, __LINE__);
        F.alive = true; F.fid = F.f->FID();
        fors[fi] = F;
        j.i("ok", 1).i("fid", F.fid);
    } catch (error e) {
        j.i("ok", 0).s("err", errname(e.getCode()));
    }
    j.done();
}

static void cmd_dfor(Toks &T)
{
    int fi = T.nexti();
    J j("DFor"); j.i("f", fi);
    try {
        For &F = getF(fi);
        forest::destroy(F.f);
        F.alive = false;
        j.i("ok", 1);
    } catch (error e) {
        j.i("ok", 0).s("err", errname(e.getCode()));
    }
    j.done();
}

static void cmd_new(Toks &T)
{
    int e = T.nexti(); int fi = T.nexti();
    J j("New"); j.i("s", e).i("f", fi);
    try {
        forest* f = (fi < 0) ? nullptr : getF(fi).f;
        if (edges.count(e) && edges[e]) throw harness_error("slot in use");
        edges[e] = new dd_edge(f);
        j.i("ok", 1).raw("res", describe(e, *edges[e], false));
    } catch (error er) {
        j.i("ok", 0).s("err", errname(er.getCode()));
    }
    j.done();
}

static void cmd_copy(Toks &T)
{
    int e = T.nexti(); int src = T.nexti();
    J j("Copy"); j.i("s", e).i("src", src);
    try {
        if (edges.count(e) && edges[e]) throw harness_error("slot in use");
        edges[e] = new dd_edge(getE(src));
        j.i("ok", 1).raw("res", describe(e, *edges[e], false));
    } catch (error er) {
        j.i("ok", 0).s("err", errname(er.getCode()));
    }
    j.done();
}

static void cmd_asg(Toks &T)
{
    int e = T.nexti(); int src = T.nexti();
    J j("Asg"); j.i("s", e).i("src", src);
    try {
        getE(e) = getE(src);
        j.i("ok", 1).raw("res", describe(e, getE(e), false));
    } catch (error er) {
        j.i("ok", 0).s("err", errname(er.getCode()));
    }
    j.done();
}

static void cmd_del(Toks &T)
{
    int e = T.nexti();
    J j("Del"); j.i("s", e);
    try {
        dd_edge* p = &getE(e);
        delete p;
        edges[e] = nullptr;
        j.i("ok", 1);
    } catch (error er) {
        j.i("ok", 0).s("err", errname(er.getCode()));
    }
    j.done();
}

static void cmd_attach(Toks &T)
{
    int e = T.nexti(); int fi = T.nexti();
    J j("Attach"); j.i("s", e).i("f", fi);
    try {
        getE(e).attach(fi < 0 ? nullptr : getF(fi).f);
        j.i("ok", 1).raw("res", describe(e, getE(e), false));
    } catch (error er) {
        j.i("ok", 0).s("err", errname(er.getCode()));
    }
    j.done();
}

// bulk <e> <k>: k extra copies of edge e are created, the incoming count of
// its root observed, then all released again
static void cmd_bulk(Toks &T)
{
    int e = T.nexti(); long k = T.nextl();
    J j("Bulk"); j.i("s", e).i("k", k);
    try {
        dd_edge &E = getE(e);
        int fi = forestIndexOf(E);
        std::vector<dd_edge*> c;
        long before = (fi>=0 && E.getNode()>0) ? long(getF(fi).f->getNodeInCount(E.getNode())) : -1;
        for (long x=0; x<k; x++) c.push_back(new dd_edge(E));
        long mid = (fi>=0 && E.getNode()>0) ? long(getF(fi).f->getNodeInCount(E.getNode())) : -1;
        for (size_t x=0; x<c.size(); x++) delete c[x];
        long after = (fi>=0 && E.getNode()>0) ? long(getF(fi).f->getNodeInCount(E.getNode())) : -1;
        j.i("ok", 1).i("before", before).i("mid", mid).i("after", after);
    } catch (error er) {
        j.i("ok", 0).s("err", errname(er.getCode()));
    }
    j.done();
}

// hold <e> <k>: k more copies of edge e are created and kept in a pool
// drop <k>    : the k most recent copies in the pool are released
static std::vector<dd_edge*> pool;
static void cmd_hold(Toks &T)
{
    int e = T.nexti(); long k = T.nextl();
    J j("Hold"); j.i("s", e).i("k", k);
    try {
        dd_edge &E = getE(e);
        for (long x=0; x<k; x++) pool.push_back(new dd_edge(E));
        int fi = forestIndexOf(E);
        j.i("ok", 1).i("pool", long(pool.size()))
         .i("inc", (fi>=0 && E.getNode()>0) ? long(getF(fi).f->getNodeInCount(E.getNode())) : -1);
    } catch (error er) {
        j.i("ok", 0).s("err", errname(er.getCode()));
    }
    j.done();
}
static void cmd_drop(Toks &T)
{
    long k = T.nextl();
    J j("Drop"); j.i("k", k);
    try {
        for (long x=0; x<k && !pool.empty(); x++) { delete pool.back(); pool.pop_back(); }
        j.i("ok", 1).i("pool", long(pool.size()));
    } catch (error er) {
        j.i("ok", 0).s("err", errname(er.getCode()));
    }
    j.done();
}

// unode <e> <f> <level> <S|F> <n> { <index> <child> }     (expert interface)
//   builds one node at <level> from an unpacked node filled in the given order
//   (S: sparse, F: full) and stores the reduced result in edge e.  <child> is
//   an edge slot (its function must not depend on variables at or above
//   <level>) or T<value> for a terminal / constant edge.
static void cmd_unode(Toks &T)
{
    int e = T.nexti(); int fi = T.nexti(); int level = T.nexti(); std::string mode = T.next(); int n = T.nexti();
    For &F = getF(fi);
    std::vector<long> idx; std::vector<std::string> ch;
    for (int x=0; x<n; x++) { idx.push_back(T.nextl()); ch.push_back(T.next()); }
    J j("UNode"); j.i("s", e).i("f", fi).i("lvl", level).s("mode", mode);
    {
        std::string k = "[";
        for (int x=0; x<n; x++) {
            if (x) k += ',';
            if (ch[size_t(x)][0] == 'T') {
                k += "{\"i\":" + std::to_string(idx[size_t(x)]) + ",\"c\":-1,\"v\":" + std::to_string(rv2long(mkval(F, parse_val(ch[size_t(x)].substr(1))))) + "}";
            } else {
                k += "{\"i\":" + std::to_string(idx[size_t(x)]) + ",\"c\":" + ch[size_t(x)] + ",\"v\":0}";
            }
        }
        k += "]";
        j.raw("kids", k);
    }
    try {
        dd_edge &E = getE(e);
        forest* f = F.f;
        const unsigned lsz = unsigned(f->getLevelSize(level));
        unpacked_node* U;
        if (mode == "S") {
            U = unpacked_node::newWritable(f, level, unsigned(n), SPARSE_ONLY);
        } else {
            U = unpacked_node::newWritable(f, level, lsz, FULL_ONLY);
            U->clear(0, lsz);
        }
        for (int x=0; x<n; x++) {
            edge_value ev; node_handle dn;
            if (ch[size_t(x)][0] == 'T') {
                dd_edge tmp(f);
                f->createConstant(mkval(F, parse_val(ch[size_t(x)].substr(1))), tmp);
                // a constant below the bottom of the node: only its terminal part is used
                ev = tmp.getEdgeValue();
                dn = tmp.getNode();
                if (dn > 0) throw harness_error("unode: constant is not a terminal edge in this forest");
            } else {
                dd_edge &C = getE(atoi(ch[size_t(x)].c_str()));
                ev = C.getEdgeValue();
                dn = f->linkNode(C.getNode());
            }
            if (mode == "S") {
                if (f->isMultiTerminal()) U->setSparse(unsigned(x), unsigned(idx[size_t(x)]), dn);
                else U->setSparse(unsigned(x), unsigned(idx[size_t(x)]), ev, dn);
            } else {
                if (f->isMultiTerminal()) U->setFull(unsigned(idx[size_t(x)]), dn);
                else U->setFull(unsigned(idx[size_t(x)]), ev, dn);
            }
        }
        edge_value rv; node_handle rn;
        f->createReducedNode(U, rv, rn);
        E.set(rv, rn);
        j.i("ok", 1).raw("res", describe(e, E, true));
    } catch (error er) {
        j.i("ok", 0).s("err", errname(er.getCode()));
    }
    j.done();
}

// coll <e> <f> <MAX|MIN|ONE> <deflt> <n> { <val> <vars...> }
//   sets: K entries per minterm (-1 = don't care)
//   relations: 2K entries: u_1..u_K p_1..p_K (-1 don't care, -2 don't change)
static void cmd_coll(Toks &T)
{
    int e = T.nexti(); int fi = T.nexti();
    std::string mode = T.next();
    std::string dflt = T.next();
    int n = T.nexti();
    For &F = getF(fi);
    const Dom &D = getD(F.d);
    const int K = int(D.sizes.size())-1;
    const int W = F.rel ? 2*K : K;
    std::vector< std::vector<long> > mts;
    std::vector<std::string> vals;
    for (int x=0; x<n; x++) {
        vals.push_back(T.next());
        std::vector<long> v;
        for (int k=0; k<W; k++) v.push_back(T.nextl());
        mts.push_back(v);
    }
    J j("Coll");
    j.i("s", e).i("f", fi).s("mode", mode);
    {
        rangeval dv = mkval_typed(F, dflt);
        j.i("deflt", rv2long(dv));
        std::string m = "[";
        for (int x=0; x<n; x++) {
            if (x) m += ',';
            rangeval v = mkval_typed(F, vals[size_t(x)]);
            m += "{\"v\":" + std::to_string(rv2long(v)) + ",\"a\":" + jarr(mts[size_t(x)]) + "}";
        }
        m += "]";
        j.raw("mts", m);
    }
    try {
        dd_edge &E = getE(e);
        rangeval dv = mkval_typed(F, dflt);
        if (mode == "ONE") {
            if (n != 1) throw harness_error("ONE needs one minterm");
            minterm m(F.f);
            for (int k=1; k<=K; k++) {
                if (F.rel) m.setVars(unsigned(k), int(mts[0][size_t(k-1)]), int(mts[0][size_t(K+k-1)]));
                else m.setVar(unsigned(k), int(mts[0][size_t(k-1)]));
            }
            m.setValue(mkval_typed(F, vals[0]));
            m.buildFunction(dv, E);
        } else {
            minterm_coll mc(unsigned(n > 0 ? n : 1), F.f);
            for (int x=0; x<n; x++) {
                minterm &m = mc.unused();
                for (int k=1; k<=K; k++) {
                    if (F.rel) m.setVars(unsigned(k), int(mts[size_t(x)][size_t(k-1)]), int(mts[size_t(x)][size_t(K+k-1)]));
                    else m.setVar(unsigned(k), int(mts[size_t(x)][size_t(k-1)]));
                }
                m.setValue(mkval_typed(F, vals[size_t(x)]));
                mc.pushUnused();
            }
            if (mode == "MAX") mc.buildFunctionMax(dv, E);
            else mc.buildFunctionMin(dv, E);
        }
        j.i("ok", 1).raw("res", describe(e, E, true));
    } catch (error er) {
        j.i("ok", 0).s("err", errname(er.getCode()));
    }
    j.done();
}

static void cmd_const(Toks &T)
{
    int e = T.nexti(); int fi = T.nexti(); std::string v = T.next();
    For &F = getF(fi);
    J j("Const"); j.i("s", e).i("f", fi).i("v", rv2long(mkval_typed(F, v)));
    try {
        dd_edge &E = getE(e);
        F.f->createConstant(mkval_typed(F, v), E);
        j.i("ok", 1).raw("res", describe(e, E, true));
    } catch (error er) {
        j.i("ok", 0).s("err", errname(er.getCode()));
    }
    j.done();
}

// var <e> <f> <vh> <primed> <nterms> terms...
static void cmd_var(Toks &T)
{
    int e = T.nexti(); int fi = T.nexti(); int vh = T.nexti(); int pr = T.nexti(); int nt = T.nexti();
    For &F = getF(fi);
    std::vector<std::string> ts;
    for (int x=0; x<nt; x++) ts.push_back(T.next());
    std::vector<long> tl;
    for (int x=0; x<nt; x++) tl.push_back(rv2long(mkval_typed(F, ts[size_t(x)])));
    J j("Var"); j.i("s", e).i("f", fi).i("vh", vh).i("pr", pr).arr("terms", tl);
    try {
        dd_edge &E = getE(e);
        if (nt == 0) {
            F.f->createEdgeForVar(vh, pr != 0, E);
        } else {
            std::vector<rangeval> rv;
            for (int x=0; x<nt; x++) rv.push_back(mkval_typed(F, ts[size_t(x)]));
            F.f->createEdgeForVar(vh, pr != 0, rv.data(), E);
        }
        j.i("ok", 1).raw("res", describe(e, E, true));
    } catch (error er) {
        j.i("ok", 0).s("err", errname(er.getCode()));
    }
    j.done();
}

static void cmd_un(Toks &T)
{
    std::string op = T.next(); int r = T.nexti(); int a = T.nexti();
    { J c("Call"); c.s("c", "un").s("op", op).i("r", r).i("a", a).i("b", -1); c.done(); }
    J j("Un"); j.s("op", op).i("r", r).i("a", a);
    try {
        dd_edge &A = getE(a); dd_edge &R = getE(r);
        j.i("rf", forestIndexOf(R)).i("af", forestIndexOf(A));
        apply(unary_by_name(op), A, R);
        j.i("ok", 1).raw("res", describe(r, R, true));
    } catch (error er) {
        j.i("ok", 0).s("err", errname(er.getCode()));
    }
    j.done();
}

static void cmd_bin(Toks &T)
{
    std::string op = T.next(); int r = T.nexti(); int a = T.nexti(); int b = T.nexti();
    { J c("Call"); c.s("c", "bin").s("op", op).i("r", r).i("a", a).i("b", b); c.done(); }
    J j("Bin"); j.s("op", op).i("r", r).i("a", a).i("b", b);
    try {
        dd_edge &A = getE(a); dd_edge &B = getE(b); dd_edge &R = getE(r);
        j.i("rf", forestIndexOf(R)).i("af", forestIndexOf(A)).i("bf", forestIndexOf(B));
        apply(binary_by_name(op), A, B, R);
        j.i("ok", 1).raw("res", describe(r, R, true));
    } catch (error er) {
        j.i("ok", 0).s("err", errname(er.getCode()));
    }
    j.done();
}

static void cmd_card(Toks &T)
{
    int a = T.nexti();
    J j("Card"); j.i("a", a);
    try {
        dd_edge &A = getE(a);
        long cl = -1; double cd = -1;
        apply(CARDINALITY, A, cl);
        apply(CARDINALITY, A, cd);
        mpz_t z; mpz_init(z);
        apply(CARDINALITY, A, z);
        long cz = mpz_fits_slong_p(z) ? mpz_get_si(z) : -2;
        mpz_clear(z);
        long cdl = (cd == double(long(cd))) ? long(cd) : -3;
        j.i("ok", 1).i("cl", cl).i("cd", cdl).i("cz", cz);
    } catch (error er) {
        j.i("ok", 0).s("err", errname(er.getCode()));
    }
    j.done();
}

static void cmd_rng(Toks &T)
{
    std::string which = T.next(); int a = T.nexti();
    J j("Rng"); j.s("which", which).i("a", a);
    try {
        dd_edge &A = getE(a);
        int fi = forestIndexOf(A);
        if (fi < 0) {
            long v = 0;
            if (which=="MAX") apply(MAX_RANGE, A, v); else apply(MIN_RANGE, A, v);
            j.i("ok", 1).i("v", v);
            j.done();
            return;
        }
        For &F = getF(fi);
        if (F.rng == 'R') {
            double v = 0;
            if (which=="MAX") apply(MAX_RANGE, A, v); else apply(MIN_RANGE, A, v);
            j.i("ok", 1).i("v", scaled(v));
        } else {
            long v = 0;
            if (which=="MAX") apply(MAX_RANGE, A, v); else apply(MIN_RANGE, A, v);
            j.i("ok", 1).i("v", v);
        }
    } catch (error er) {
        j.i("ok", 0).s("err", errname(er.getCode()));
    }
    j.done();
}

// iter <a> <mask entries...>   (no entries: no mask)
//   optional trailing "deref": dereference the exhausted iterator (misuse)
static void cmd_iter(Toks &T)
{
    int a = T.nexti();
    std::vector<long> mask;
    bool deref_end = false;
    while (T.more()) {
        const std::string &t = T.next();
        if (t == "deref") { deref_end = true; continue; }
        mask.push_back(parse_val(t));
    }
    J j("Iter"); j.i("a", a).arr("mask", mask).i("deref", deref_end);
    try {
        dd_edge &A = getE(a);
        int fi = forestIndexOf(A);
        j.i("af", fi);
        if (fi < 0) {
            // misuse: iterating a detached edge; the library must raise an error
            long cnt = 0;
            dd_edge::iterator it0 = A.begin(nullptr);
            for (; it0; ++it0) { if (++cnt > 100000) throw harness_error("iterator does not terminate"); }
            j.raw("seq", "[]").i("cnt", cnt).i("ok", 1);
            j.done();
            return;
        }
        For &F = getF(fi);
        const Dom &D = getD(F.d);
        const int K = int(D.sizes.size())-1;
        minterm mk(F.f);
        if (!mask.empty()) {
            for (int k=1; k<=K; k++) {
                if (F.rel) mk.setVars(unsigned(k), int(mask[size_t(k-1)]), int(mask[size_t(K+k-1)]));
                else mk.setVar(unsigned(k), int(mask[size_t(k-1)]));
            }
        }
        std::string seq = "[";
        long cnt = 0;
        dd_edge::iterator it = A.begin(mask.empty() ? nullptr : &mk);
        for (; it; ++it) {
            const minterm &m = *it;
            if (cnt) seq += ',';
            seq += '[' + std::to_string(minterm2rank(F, m)) + ',' + std::to_string(rv2long(m.getValue())) + ']';
            cnt++;
            if (cnt > 100000) throw harness_error("iterator does not terminate");
        }
        seq += ']';
        j.raw("seq", seq);
        if (deref_end) {
            const minterm &m = *it;     // must throw INVALID_ITERATOR
            j.i("derefval", rv2long(m.getValue()));
        }
        j.i("ok", 1);
    } catch (error er) {
        j.i("ok", 0).s("err", errname(er.getCode()));
    }
    j.done();
}

static void cmd_elem(Toks &T)
{
    int a = T.nexti(); long idx = T.nextl();
    J j("Elem"); j.i("a", a).i("i", idx);
    try {
        dd_edge &A = getE(a);
        int fi = forestIndexOf(A);
        For &F = getF(fi);
        minterm m(F.f);
        bool found = A.getElement(idx, m);
        j.i("ok", 1).i("found", found).i("rank", found ? minterm2rank(F, m) : -1);
    } catch (error er) {
        j.i("ok", 0).s("err", errname(er.getCode()));
    }
    j.done();
}

// icard <a>: index-set cardinality stored at the root node (and at every node
// in a snapshot-like list)
static void cmd_icard(Toks &T)
{
    int a = T.nexti();
    J j("ICard"); j.i("a", a);
    try {
        dd_edge &A = getE(a);
        int fi = forestIndexOf(A);
        For &F = getF(fi);
        long c = F.f->getIndexSetCardinality(A.getNode());
        j.i("ok", 1).i("c", c);
    } catch (error er) {
        j.i("ok", 0).s("err", errname(er.getCode()));
    }
    j.done();
}

static void cmd_reorder(Toks &T)
{
    int fi = T.nexti();
    std::vector<long> l2v;
    while (T.more()) l2v.push_back(T.nextl());
    { J c("Call"); c.s("c", "reorder").s("op", "REORDER").i("r", fi).i("a", -1).i("b", -1); c.done(); }
    J j("Reorder"); j.i("f", fi).arr("l2v", l2v);
    try {
        For &F = getF(fi);
        std::vector<int> o(l2v.size()+1, 0);
        for (size_t k=0; k<l2v.size(); k++) o[k+1] = int(l2v[k]);
        F.f->reorderVariables(o.data());
        std::vector<long> now;
        const int K = int(getD(F.d).sizes.size())-1;
        for (int k=1; k<=K; k++) now.push_back(F.f->getVarByLevel(k));
        j.i("ok", 1).arr("now", now);
    } catch (error er) {
        j.i("ok", 0).s("err", errname(er.getCode()));
    }
    j.done();
}

// write <blob> <f> <n> e1..en
static void cmd_write(Toks &T)
{
    int b = T.nexti(); int fi = T.nexti(); int n = T.nexti();
    std::vector<long> es;
    for (int x=0; x<n; x++) es.push_back(T.nextl());
    J j("Write"); j.i("b", b).i("f", fi).arr("es", es);
    try {
        For &F = getF(fi);
        std::ostringstream os;
        {
            ostream_output out(os);
            mdd_writer W(out, F.f);
            for (int x=0; x<n; x++) W.writeRootEdge(getE(int(es[size_t(x)])));
            W.finish();
        }
        blobs[b] = os.str();
        j.i("ok", 1).i("bytes", long(blobs[b].size()));
    } catch (error er) {
        j.i("ok", 0).s("err", errname(er.getCode()));
    }
    j.done();
}

// read <blob> <f> <n> e1..en   : read into existing forest f, store roots in
//                                existing slots e1..en
// readnew <blob> <d> <fnew> <n> e1..en : create forest from file over domain d
static void cmd_read(Toks &T, bool fromfile)
{
    int b = T.nexti(); int fi_or_d = T.nexti();
    int fnew = fromfile ? T.nexti() : -1;
    int n = T.nexti();
    std::vector<long> es;
    for (int x=0; x<n; x++) es.push_back(T.nextl());
    J j(fromfile ? "ReadNew" : "Read"); j.i("b", b).i(fromfile ? "d" : "f", fi_or_d).arr("es", es);
    if (fromfile) j.i("fnew", fnew);
    try {
        std::istringstream is(blobs[b]);
        istream_input in(is);
        mdd_reader* R;
        if (fromfile) {
            Dom &D = getD(fi_or_d);
            R = new mdd_reader(in, D.d);
            forest* nf = R->getForest();
            For F; F.d = fi_or_d; F.f = nf; F.alive = true; F.fid = nf->FID();
            F.rel = nf->isForRelations();
            F.rng = nf->getRangeType()==range_type::BOOLEAN ? 'B' : (nf->getRangeType()==range_type::INTEGER ? 'I' : 'R');
            F.lab = nf->isMultiTerminal() ? "MT" : nf->isEVPlus() ? "EP" : nf->isIndexSet() ? "IX" : "ET";
            F.rule = nf->isFullyReduced() ? 'F' : nf->isQuasiReduced() ? 'Q' : 'I';
            fors[fnew] = F;
            j.i("rel", F.rel).s("rng", std::string(1, F.rng)).s("lab", F.lab).s("rule", std::string(1, F.rule)).i("fid", F.fid);
        } else {
            R = new mdd_reader(in, getF(fi_or_d).f);
        }
        j.i("nroots", R->numRoots());
        std::string res = "[";
        for (int x=0; x<n; x++) {
            int slot = int(es[size_t(x)]);
            if (!edges.count(slot) || !edges[slot]) edges[slot] = new dd_edge(R->getForest());
            R->readRootEdge(*edges[slot]);
            if (x) res += ',';
            res += describe(slot, *edges[slot], true);
        }
        res += ']';
        delete R;
        j.i("ok", 1).raw("res", res);
    } catch (error er) {
        j.i("ok", 0).s("err", errname(er.getCode()));
    }
    j.done();
}

static void cmd_clearct(Toks &T)
{
    int fi = T.nexti();
    J j("ClearCT"); j.i("f", fi);
    try {
        getF(fi).f->removeAllComputeTableEntries();
        j.i("ok", 1);
    } catch (error er) {
        j.i("ok", 0).s("err", errname(er.getCode()));
    }
    j.done();
}

static void cmd_rmstale(Toks &)
{
    // explicit stale removal exists publicly only for the monolithic table
    J j("RmStale");
    try {
        bool mono = compute_table::removeStalesFromMonolithic();
        j.i("ok", 1).i("mono", mono);
    } catch (error er) {
        j.i("ok", 0).s("err", errname(er.getCode()));
    }
    j.done();
}

static void cmd_clearall(Toks &)
{
    J j("ClearAll");
    try {
        bool mono = compute_table::removeAllFromMonolithic();
        for (std::map<int,For>::iterator it=fors.begin(); it!=fors.end(); ++it)
            if (it->second.alive) it->second.f->removeAllComputeTableEntries();
        j.i("ok", 1).i("mono", mono);
    } catch (error er) {
        j.i("ok", 0).s("err", errname(er.getCode()));
    }
    j.done();
}

static void cmd_obs(Toks &T)
{
    // obs            : every live edge
    // obs e1 e2 ...  : these
    std::vector<int> which;
    while (T.more()) which.push_back(T.nexti());
    if (which.empty()) {
        for (std::map<int,dd_edge*>::iterator it=edges.begin(); it!=edges.end(); ++it)
            if (it->second) which.push_back(it->first);
    }
    J j("Obs");
    try {
        std::string s = "[";
        for (size_t x=0; x<which.size(); x++) {
            if (x) s += ',';
            s += describe(which[x], getE(which[x]), true);
        }
        s += ']';
        j.i("ok", 1).raw("E", s);
    } catch (error er) {
        j.i("ok", 0).s("err", errname(er.getCode()));
    }
    j.done();
}

// expect <e> <nodecount>: what the store model (MddStoreGen) predicts for edge e
// after the preceding call; recorded next to what the library holds
static void cmd_expect(Toks &T)
{
    int e = T.nexti(); long nc = T.nextl();
    J j("Expect"); j.i("s", e).i("nc", nc);
    j.i("ok", 1).raw("res", describe(e, getE(e), true));
    j.done();
}

static void cmd_snap(Toks &T)
{
    int fi = T.nexti();
    do_snap(fi);
}

// sat <r> <init> <BYEV|BYLV> <split 0..4> <n> ev1..evn
//   builds a pregen_relation over the forest of the event edges, runs
//   SATURATION_FORWARD from edge <init> into edge <r>
static void cmd_sat(Toks &T)
{
    int r = T.nexti(); int init = T.nexti();
    std::string mode = T.next(); int split = T.nexti(); int n = T.nexti();
    std::vector<long> evs;
    for (int x=0; x<n; x++) evs.push_back(T.nextl());
    { J c("Call"); c.s("c", "sat").s("op", "SATURATION_FORWARD").i("r", r).i("a", init).i("b", n>0 ? evs[0] : -1); c.done(); }
    J j("Sat"); j.i("r", r).i("init", init).s("mode", mode).i("split", split).arr("evs", evs);
    pregen_relation* pr = nullptr;
    try {
        dd_edge &R = getE(r); dd_edge &I = getE(init);
        forest* setF = I.getForest();
        forest* relF = (n>0) ? getE(int(evs[0])).getForest() : nullptr;
        if (!relF) throw harness_error("sat needs at least one event");
        j.i("rf", forestIndexOf(R)).i("af", forestIndexOf(I));
        if (mode == "BYEV") pr = new pregen_relation(relF, unsigned(n));
        else pr = new pregen_relation(relF);
        for (int x=0; x<n; x++) pr->addToRelation(getE(int(evs[size_t(x)])));
        static const pregen_relation::splittingOption SO[5] = {
            pregen_relation::None, pregen_relation::SplitOnly, pregen_relation::SplitSubtract,
            pregen_relation::SplitSubtractAll, pregen_relation::MonolithicSplit };
        pr->finalize(SO[split]);
        saturation_operation* sat = SATURATION_FORWARD(setF, pr, R.getForest());
        if (!sat) throw error(error::INVALID_OPERATION, __FILE__, __LINE__);
        sat->compute(I, R);
        j.i("ok", 1).raw("res", describe(r, R, true));
        // the operation owns the relation from here on
    } catch (error er) {
        j.i("ok", 0).s("err", errname(er.getCode()));
    }
    j.done();
}

// eval <a> <point...> : evaluate at a single (possibly ill-formed) minterm
static void cmd_evalat(Toks &T)
{
    int a = T.nexti();
    std::vector<long> pt;
    while (T.more()) pt.push_back(T.nextl());
    J j("EvalAt"); j.i("a", a).arr("pt", pt);
    try {
        dd_edge &A = getE(a);
        int fi = forestIndexOf(A);
        j.i("af", fi);
        forest* f = A.getForest();
        if (!f) {
            // detached edge: use any live forest's shape for the minterm
            for (std::map<int,For>::iterator it=fors.begin(); it!=fors.end(); ++it)
                if (it->second.alive) { f = it->second.f; break; }
        }
        if (!f) throw harness_error("no forest for minterm");
        minterm m(f);
        const int K = int(f->getNumVariables());
        for (int k=1; k<=K; k++) {
            if (f->isForRelations()) m.setVars(unsigned(k), int(pt[size_t(k-1)]), int(pt[size_t(K+k-1)]));
            else m.setVar(unsigned(k), int(pt[size_t(k-1)]));
        }
        rangeval v;
        A.evaluate(m, v);
        j.i("ok", 1).i("v", rv2long(v));
    } catch (error er) {
        j.i("ok", 0).s("err", errname(er.getCode()));
    }
    j.done();
}

// ---------------------------------------------------------------------------
// main loop
// ---------------------------------------------------------------------------
static void dispatch(Toks &T)
{
    const std::string c = T.next();
    if (c == "ct") cmd_ct(T);
    else if (c == "init") cmd_init(T);
    else if (c == "cleanup") cmd_cleanup(T);
    else if (c == "dom") cmd_dom(T);
    else if (c == "ddom") cmd_ddom(T);
    else if (c == "for") cmd_for(T);
    else if (c == "dfor") cmd_dfor(T);
    else if (c == "new") cmd_new(T);
    else if (c == "copy") cmd_copy(T);
    else if (c == "asg") cmd_asg(T);
    else if (c == "del") cmd_del(T);
    else if (c == "attach") cmd_attach(T);
    else if (c == "bulk") cmd_bulk(T);
    else if (c == "hold") cmd_hold(T);
    else if (c == "drop") cmd_drop(T);
    else if (c == "coll") cmd_coll(T);
    else if (c == "unode") cmd_unode(T);
    else if (c == "const") cmd_const(T);
    else if (c == "var") cmd_var(T);
    else if (c == "un") cmd_un(T);
    else if (c == "bin") cmd_bin(T);
    else if (c == "card") cmd_card(T);
    else if (c == "rng") cmd_rng(T);
    else if (c == "iter") cmd_iter(T);
    else if (c == "elem") cmd_elem(T);
    else if (c == "icard") cmd_icard(T);
    else if (c == "reorder") cmd_reorder(T);
    else if (c == "write") cmd_write(T);
    else if (c == "read") cmd_read(T, false);
    else if (c == "readnew") cmd_read(T, true);
    else if (c == "clearct") cmd_clearct(T);
    else if (c == "rmstale") cmd_rmstale(T);
    else if (c == "clearall") cmd_clearall(T);
    else if (c == "obs") cmd_obs(T);
    else if (c == "snap") cmd_snap(T);
    else if (c == "expect") cmd_expect(T);
    else if (c == "sat") cmd_sat(T);
    else if (c == "evalat") cmd_evalat(T);
    else if (c == "tag") { J j("Tag"); j.s("t", T.more() ? T.next() : ""); j.done(); }
    else throw harness_error("unknown command " + c);
}

int main(int argc, char** argv)
{
    if (argc < 3) {
        fprintf(stderr, "usage: mdrive script trace [lifecycle]\n");
        return 2;
    }
    want_lifecycle = (argc > 3 && 0==strcmp(argv[3], "lifecycle"));
    trace_fd = open(argv[2], O_WRONLY | O_CREAT | O_APPEND, 0644);
    if (trace_fd < 0) { perror("trace"); return 2; }
    std::ifstream in(argv[1]);
    if (!in) { perror("script"); return 2; }

    signal(SIGSEGV, crash_handler);
    signal(SIGABRT, crash_handler);
    signal(SIGFPE, crash_handler);
    signal(SIGBUS, crash_handler);
    signal(SIGILL, crash_handler);
    std::set_terminate(term_handler);

    { J j("Reset"); j.s("script", argv[1]); j.done(); }

    std::string line;
    long lineno = 0;
    while (std::getline(in, line)) {
        lineno++;
        if (line.empty() || line[0]=='#') continue;
        Toks T;
        { std::istringstream ls(line); std::string t; while (ls >> t) T.t.push_back(t); }
        if (T.t.empty()) continue;
        strncpy(curcmd, line.c_str(), sizeof(curcmd)-1);
        curcmd[sizeof(curcmd)-1] = 0;
        try {
            dispatch(T);
        } catch (harness_error he) {
            // The script refers to something that does not exist.  If an earlier
            // library call failed (e.g. the reader that should have created this
            // forest threw), that failure is the finding and it is already in the
            // trace: record where the script had to stop and end normally; the trace
            // specification accepts a Stop only after a failed call.
            if (any_call_failed) {
                J j("Stop"); j.s("why", he.what).s("cmd", curcmd); j.done();
                close(trace_fd);
                _exit(0);
            }
            fprintf(stderr, "mdrive: harness error at %s:%ld: %s\n", argv[1], lineno, he.what.c_str());
            return 2;
        } catch (error e) {
            // a MEDDLY error outside a command's own try block: this is a
            // harness-side problem (e.g. describing a result), not an outcome
            fprintf(stderr, "mdrive: stray MEDDLY error %s at %s:%ld (%s:%u)\n", errname(e.getCode()), argv[1], lineno, e.getFile(), e.getLine());
            return 2;
        }
        curcmd[0] = 0;
    }
    { J j("End"); j.done(); }
    close(trace_fd);
    // no cleanup on purpose unless the script asked for it
    _exit(0);
}
