SPECIFICATION Spec
CONSTANT Widths = {16, 64, 256, 1024}
INVARIANT AllHold
