------------------------------- MODULE MddApi -------------------------------
(***************************************************************************)
(* API-level state machine of MEDDLY.                                      *)
(*                                                                         *)
(* One action per public entry point; the linearization point of this      *)
(* sequential library is the return of the call (normally or by            *)
(* exception).  An edge held by the user is a slot holding the forest it   *)
(* is attached to and the function it denotes (MddFun); operations are     *)
(* their pointwise definitions.  A call whose precondition is violated is  *)
(* an error step: err' is the documented code and nothing else changes.    *)
(***************************************************************************)
EXTENDS MddFun

VARIABLES
    lib,        \* TRUE while the library is initialised
    doms,       \* d |-> [sizes, alive]
    fors,       \* f |-> [d, rel, rng, lab, rule, alive, fid]
    edges,      \* slot |-> [f, fn]   (f = NoForest: detached, fn = <<>>)
    nextFid,    \* next forest identifier within this initialisation
    err         \* outcome of the last call: "ok" or an error code

vars == <<lib, doms, fors, edges, nextFid, err>>

NoForest == -1
DetachedEdge == [f |-> NoForest, fn |-> <<>>]

-----------------------------------------------------------------------------
(* Forest kinds *)

ValidKind(rel, rng, lab) ==
    \/ lab = "MT" /\ rng \in {"B", "I", "R"}
    \/ lab = "EP" /\ rng = "I"
    \/ lab = "IX" /\ rng = "I" /\ ~rel
    \/ lab = "ET" /\ rng = "R" /\ rel

ValidRule(rel, rule) == rule \in {"F", "Q"} \/ (rule = "I" /\ rel)

\* value of the function denoted by a freshly attached (transparent) edge
Transparent(F) == IF F.lab \in {"EP", "IX"} THEN Inf ELSE 0

\* the value "one" of a forest's range
UnitOf(F) == IF F.rng = "R" THEN RealOne ELSE 1

Sizes(F)  == doms[F.d].sizes
FDS(F)    == DS(Sizes(F), F.rel)
NPts(F)   == NPoints(FDS(F))

LiveForest(f) == f \in DOMAIN fors /\ fors[f].alive
LiveEdge(s)   == s \in DOMAIN edges /\ edges[s].f # NoForest

EdgesOf(f) == {s \in DOMAIN edges : edges[s].f = f}

-----------------------------------------------------------------------------
(* Library, domain and forest lifecycles (C17) *)

Init ==
    /\ lib = FALSE
    /\ doms = << >>
    /\ fors = << >>
    /\ edges = << >>
    /\ nextFid = 1
    /\ err = "ok"

Initialize ==
    IF lib
    THEN err' = "ALREADY_INITIALIZED" /\ UNCHANGED <<lib, doms, fors, edges, nextFid>>
    ELSE /\ lib' = TRUE
         /\ nextFid' = 1
         /\ err' = "ok"
         /\ UNCHANGED <<doms, fors, edges>>

\* every forest and domain dies, every edge becomes detached
Cleanup ==
    IF ~lib
    THEN err' = "UNINITIALIZED" /\ UNCHANGED <<lib, doms, fors, edges, nextFid>>
    ELSE /\ lib' = FALSE
         /\ doms' = [d \in DOMAIN doms |-> [doms[d] EXCEPT !.alive = FALSE]]
         /\ fors' = [f \in DOMAIN fors |-> [fors[f] EXCEPT !.alive = FALSE]]
         /\ edges' = [s \in DOMAIN edges |-> DetachedEdge]
         /\ err' = "ok"
         /\ UNCHANGED nextFid

CreateDomain(d, sizes) ==
    /\ lib
    /\ doms' = (d :> [sizes |-> sizes, alive |-> TRUE]) @@ doms
    /\ err' = "ok"
    /\ UNCHANGED <<lib, fors, edges, nextFid>>

\* destroying a domain destroys its forests; their edges become detached;
\* forests of other domains are untouched
DestroyDomain(d) ==
    /\ lib /\ d \in DOMAIN doms /\ doms[d].alive
    /\ doms' = [doms EXCEPT ![d].alive = FALSE]
    /\ fors' = [f \in DOMAIN fors |->
                  IF fors[f].d = d THEN [fors[f] EXCEPT !.alive = FALSE] ELSE fors[f]]
    /\ edges' = [s \in DOMAIN edges |->
                  IF edges[s].f # NoForest /\ fors[edges[s].f].d = d
                  THEN DetachedEdge ELSE edges[s]]
    /\ err' = "ok"
    /\ UNCHANGED <<lib, nextFid>>

CreateForest(f, d, rel, rng, lab, rule) ==
    /\ lib /\ d \in DOMAIN doms /\ doms[d].alive
    /\ IF ValidKind(rel, rng, lab)
       THEN /\ fors' = (f :> [d |-> d, rel |-> rel, rng |-> rng, lab |-> lab,
                              rule |-> rule, alive |-> TRUE, fid |-> nextFid]) @@ fors
            /\ nextFid' = nextFid + 1
            /\ err' = "ok"
       ELSE /\ err' = "TYPE_MISMATCH"
            /\ UNCHANGED <<fors, nextFid>>
    /\ UNCHANGED <<lib, doms, edges>>

DestroyForest(f) ==
    /\ lib /\ LiveForest(f)
    /\ fors' = [fors EXCEPT ![f].alive = FALSE]
    /\ edges' = [s \in DOMAIN edges |->
                  IF edges[s].f = f THEN DetachedEdge ELSE edges[s]]
    /\ err' = "ok"
    /\ UNCHANGED <<lib, doms, nextFid>>

-----------------------------------------------------------------------------
(* Edge handles *)

FreshEdge(f) == IF f = NoForest THEN DetachedEdge
                ELSE [f |-> f, fn |-> ConstFn(Transparent(fors[f]), Sizes(fors[f]), fors[f].rel)]

NewEdge(s, f) ==
    /\ f = NoForest \/ LiveForest(f)
    /\ edges' = (s :> FreshEdge(f)) @@ edges
    /\ err' = "ok"
    /\ UNCHANGED <<lib, doms, fors, nextFid>>

CopyEdge(s, src) ==
    /\ src \in DOMAIN edges
    /\ edges' = (s :> edges[src]) @@ edges
    /\ err' = "ok"
    /\ UNCHANGED <<lib, doms, fors, nextFid>>

AssignEdge(s, src) ==
    /\ s \in DOMAIN edges /\ src \in DOMAIN edges
    /\ edges' = [edges EXCEPT ![s] = edges[src]]
    /\ err' = "ok"
    /\ UNCHANGED <<lib, doms, fors, nextFid>>

DeleteEdge(s) ==
    /\ s \in DOMAIN edges
    /\ edges' = [t \in DOMAIN edges \ {s} |-> edges[t]]
    /\ err' = "ok"
    /\ UNCHANGED <<lib, doms, fors, nextFid>>

AttachEdge(s, f) ==
    /\ s \in DOMAIN edges
    /\ f = NoForest \/ LiveForest(f)
    /\ edges' = [edges EXCEPT ![s] = FreshEdge(f)]
    /\ err' = "ok"
    /\ UNCHANGED <<lib, doms, fors, nextFid>>

-----------------------------------------------------------------------------
(* Outcomes.  An outcome is [ok, err, fn]: either the function the call    *)
(* must produce, or the error it must raise ("ANY": the documentation      *)
(* fixes no code, only that a MEDDLY::error is raised).                    *)

Ok(fn)    == [ok |-> TRUE,  err |-> "ok", fn |-> fn]
Fail(e)   == [ok |-> FALSE, err |-> e,    fn |-> << >>]

\* a call that produces a function in slot s, or fails atomically (C16)
Produce(s, f, out) ==
    /\ IF out.ok
       THEN edges' = [edges EXCEPT ![s] = [f |-> f, fn |-> out.fn]]
       ELSE UNCHANGED edges
    /\ err' = out.err
    /\ UNCHANGED <<lib, doms, fors, nextFid>>

-----------------------------------------------------------------------------
(* Construction (C03) *)

\* does value v belong to the range of forest kind F?
InRange(F, v) ==
    CASE F.rng = "B" -> v \in {0, 1}
      [] F.lab \in {"EP", "IX"} -> TRUE
      [] OTHER -> v # Inf

CollOutcome(s, f, mode, deflt, mts) ==
    IF ~(s \in DOMAIN edges) \/ ~LiveForest(f) THEN Fail("ANY")
    ELSE IF edges[s].f # f THEN Fail("FOREST_MISMATCH")
    ELSE Ok(CollFn(mode, deflt, mts, Sizes(fors[f]), fors[f].rel))

BuildColl(s, f, mode, deflt, mts) == Produce(s, f, CollOutcome(s, f, mode, deflt, mts))

ConstOutcome(s, f, v) ==
    IF ~(s \in DOMAIN edges) \/ ~LiveForest(f) THEN Fail("ANY")
    ELSE IF edges[s].f # f THEN Fail("FOREST_MISMATCH")
    ELSE Ok(ConstFn(v, Sizes(fors[f]), fors[f].rel))

CreateConstant(s, f, v) == Produce(s, f, ConstOutcome(s, f, v))

VarOutcome(s, f, vh, primed, terms) ==
    IF ~(s \in DOMAIN edges) \/ ~LiveForest(f) THEN Fail("ANY")
    ELSE IF edges[s].f # f THEN Fail("FOREST_MISMATCH")
    ELSE Ok(VarFn(vh, primed, terms, UnitOf(fors[f]), Sizes(fors[f]), fors[f].rel))

CreateEdgeForVar(s, f, vh, primed, terms) == Produce(s, f, VarOutcome(s, f, vh, primed, terms))

-----------------------------------------------------------------------------
(* Operations *)

SameDomain(f, g) == fors[f].d = fors[g].d

BoolMT(F) == F.lab = "MT" /\ F.rng = "B"

\* set algebra (C04): operands and result in any MT boolean forests over the
\* same domain, all sets or all relations
SetAlgebra(op, a, b) ==
    CASE op = "UNION"        -> UnionFn(a, b)
      [] op = "INTERSECTION" -> InterFn(a, b)
      [] op = "DIFFERENCE"   -> DiffFn(a, b)

BinaryOutcome(op, r, a, b) ==
    IF ~LiveEdge(r) \/ ~LiveEdge(a) \/ ~LiveEdge(b) THEN Fail("ANY")
    ELSE
    LET fr == edges[r].f  fa == edges[a].f  fb == edges[b].f
        FR == fors[fr]    FA == fors[fa]    FB == fors[fb]
    IN
    IF ~SameDomain(fa, fb) \/ ~SameDomain(fa, fr) THEN Fail("DOMAIN_MISMATCH")
    ELSE
    CASE op \in {"UNION", "INTERSECTION", "DIFFERENCE"} ->
            IF BoolMT(FA) /\ BoolMT(FB) /\ BoolMT(FR) /\ FA.rel = FB.rel /\ FA.rel = FR.rel
            THEN Ok(SetAlgebra(op, edges[a].fn, edges[b].fn))
            ELSE Fail("TYPE_MISMATCH")
      [] op = "CROSS" ->
            IF BoolMT(FA) /\ BoolMT(FB) /\ BoolMT(FR) /\ ~FA.rel /\ ~FB.rel /\ FR.rel
            THEN Ok(CrossFn(edges[a].fn, edges[b].fn, Sizes(FA)))
            ELSE Fail("TYPE_MISMATCH")
      [] OTHER -> [ok |-> TRUE, err |-> "unmodelled", fn |-> << >>]

ApplyBinary(op, r, a, b) ==
    LET out == BinaryOutcome(op, r, a, b)
    IN  /\ out.err # "unmodelled"
        /\ Produce(r, IF LiveEdge(r) THEN edges[r].f ELSE NoForest, out)

UnaryOutcome(op, r, a) ==
    IF ~LiveEdge(r) \/ ~LiveEdge(a) THEN Fail("ANY")
    ELSE
    LET fr == edges[r].f  fa == edges[a].f
        FR == fors[fr]    FA == fors[fa]
    IN
    IF ~SameDomain(fa, fr) THEN Fail("DOMAIN_MISMATCH")
    ELSE
    CASE op = "COMPLEMENT" ->
            IF BoolMT(FA) /\ BoolMT(FR) /\ FA.rel = FR.rel
            THEN Ok(ComplFn(edges[a].fn))
            ELSE Fail("TYPE_MISMATCH")
      [] OTHER -> [ok |-> TRUE, err |-> "unmodelled", fn |-> << >>]

ApplyUnary(op, r, a) ==
    LET out == UnaryOutcome(op, r, a)
    IN  /\ out.err # "unmodelled"
        /\ Produce(r, IF LiveEdge(r) THEN edges[r].f ELSE NoForest, out)

-----------------------------------------------------------------------------
(* Properties of the state machine *)

TypeOK ==
    /\ lib \in BOOLEAN
    /\ \A s \in DOMAIN edges :
          \/ edges[s] = DetachedEdge
          \/ /\ edges[s].f \in DOMAIN fors
             /\ Len(edges[s].fn) = NPts(fors[edges[s].f])

\* C17: an attached edge always belongs to a live forest; edges of destroyed
\* forests are detached
AttachedIsLive == \A s \in DOMAIN edges : edges[s].f # NoForest => LiveForest(edges[s].f)

\* C17: forest identifiers are never reused within one initialisation
FidUnique ==
    \A f, g \in DOMAIN fors :
        (f # g /\ fors[f].alive /\ fors[g].alive) => fors[f].fid # fors[g].fid

\* C16: an error step changes nothing but err
ErrorAtomic == [][err' # "ok" => UNCHANGED <<lib, doms, fors, edges, nextFid>>]_vars

=============================================================================
