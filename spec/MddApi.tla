------------------------------- MODULE MddApi -------------------------------
(***************************************************************************)
(* API-level state machine of MEDDLY.                                      *)
(*                                                                         *)
(* One action per public entry point; the linearization point of this      *)
(* sequential library is the return of the call (normally or by            *)
(* exception).  An edge held by the user is a slot holding the forest it   *)
(* is attached to and the function it denotes (MddFun); operations are     *)
(* their pointwise definitions.  A call whose precondition is violated is  *)
(* an error step: err' is the documented code and nothing else changes.    *)
(***************************************************************************)
EXTENDS MddFun

VARIABLES
    lib,        \* TRUE while the library is initialised
    doms,       \* d |-> [sizes, alive]
    fors,       \* f |-> [d, rel, rng, lab, rule, alive, fid, l2v]
    edges,      \* slot |-> [f, fn]   (f = NoForest: detached, fn = <<>>)
    nextFid,    \* next forest identifier within this initialisation
    files,      \* exchange files: b |-> sequence of [kind, fn] records written
    err         \* outcome of the last call: "ok" or an error code

vars == <<lib, doms, fors, edges, nextFid, files, err>>

NoForest == -1
DetachedEdge == [f |-> NoForest, fn |-> <<>>]

-----------------------------------------------------------------------------
(* Forest kinds *)

ValidKind(rel, rng, lab) ==
    \/ lab = "MT" /\ rng \in {"B", "I", "R"}
    \/ lab = "EP" /\ rng = "I"
    \/ lab = "IX" /\ rng = "I" /\ ~rel
    \/ lab = "ET" /\ rng = "R" /\ rel

ValidRule(rel, rule) == rule \in {"F", "Q"} \/ (rule = "I" /\ rel)

\* value of the function denoted by a freshly attached (transparent) edge
Transparent(F) == IF F.lab \in {"EP", "IX"} THEN Inf ELSE 0

\* the value "one" of a forest's range
UnitOf(F) == IF F.rng = "R" THEN RealOne ELSE 1

\* sizes by level: the domain lists sizes by variable; a forest may have
\* reordered its variables (l2v[k] = variable at level k)
Sizes(F)  == [k \in 1..Len(doms[F.d].sizes) |-> doms[F.d].sizes[F.l2v[k]]]
FSizes(f) == Sizes(fors[f])
FDS(F)    == DS(Sizes(F), F.rel)
NPts(F)   == NPoints(FDS(F))

LiveForest(f) == f \in DOMAIN fors /\ fors[f].alive
LiveEdge(s)   == s \in DOMAIN edges /\ edges[s].f # NoForest

EdgesOf(f) == {s \in DOMAIN edges : edges[s].f = f}

-----------------------------------------------------------------------------
(* Library, domain and forest lifecycles (C17) *)

Init ==
    /\ lib = FALSE
    /\ doms = << >>
    /\ fors = << >>
    /\ edges = << >>
    /\ nextFid = 1
    /\ files = << >>
    /\ err = "ok"

Initialize ==
    IF lib
    THEN err' = "ALREADY_INITIALIZED" /\ UNCHANGED <<lib, doms, fors, edges, nextFid, files>>
    ELSE /\ lib' = TRUE
         /\ nextFid' = 1
         /\ err' = "ok"
         /\ UNCHANGED <<doms, fors, edges, files>>

\* every forest and domain dies, every edge becomes detached
Cleanup ==
    IF ~lib
    THEN err' = "UNINITIALIZED" /\ UNCHANGED <<lib, doms, fors, edges, nextFid, files>>
    ELSE /\ lib' = FALSE
         /\ doms' = [d \in DOMAIN doms |-> [doms[d] EXCEPT !.alive = FALSE]]
         /\ fors' = [f \in DOMAIN fors |-> [fors[f] EXCEPT !.alive = FALSE]]
         /\ edges' = [s \in DOMAIN edges |-> DetachedEdge]
         /\ err' = "ok"
         /\ UNCHANGED <<nextFid, files>>

CreateDomain(d, sizes) ==
    /\ lib
    /\ doms' = (d :> [sizes |-> sizes, alive |-> TRUE]) @@ doms
    /\ err' = "ok"
    /\ UNCHANGED <<lib, fors, edges, nextFid, files>>

\* destroying a domain destroys its forests; their edges become detached;
\* forests of other domains are untouched
DestroyDomain(d) ==
    /\ lib /\ d \in DOMAIN doms /\ doms[d].alive
    /\ doms' = [doms EXCEPT ![d].alive = FALSE]
    /\ fors' = [f \in DOMAIN fors |->
                  IF fors[f].d = d THEN [fors[f] EXCEPT !.alive = FALSE] ELSE fors[f]]
    /\ edges' = [s \in DOMAIN edges |->
                  IF edges[s].f # NoForest /\ fors[edges[s].f].d = d
                  THEN DetachedEdge ELSE edges[s]]
    /\ err' = "ok"
    /\ UNCHANGED <<lib, nextFid, files>>

CreateForest(f, d, rel, rng, lab, rule) ==
    /\ lib /\ d \in DOMAIN doms /\ doms[d].alive
    /\ IF ValidKind(rel, rng, lab)
       THEN /\ fors' = (f :> [d |-> d, rel |-> rel, rng |-> rng, lab |-> lab,
                              rule |-> rule, alive |-> TRUE, fid |-> nextFid,
                              l2v |-> [k \in 1..Len(doms[d].sizes) |-> k]]) @@ fors
            /\ nextFid' = nextFid + 1
            /\ err' = "ok"
       ELSE /\ err' = "TYPE_MISMATCH"
            /\ UNCHANGED <<fors, nextFid, files>>
    /\ UNCHANGED <<lib, doms, edges, files>>

DestroyForest(f) ==
    /\ lib /\ LiveForest(f)
    /\ fors' = [fors EXCEPT ![f].alive = FALSE]
    /\ edges' = [s \in DOMAIN edges |->
                  IF edges[s].f = f THEN DetachedEdge ELSE edges[s]]
    /\ err' = "ok"
    /\ UNCHANGED <<lib, doms, nextFid, files>>

-----------------------------------------------------------------------------
(* Edge handles *)

FreshEdge(f) == IF f = NoForest THEN DetachedEdge
                ELSE [f |-> f, fn |-> ConstFn(Transparent(fors[f]), Sizes(fors[f]), fors[f].rel)]

NewEdge(s, f) ==
    /\ f = NoForest \/ LiveForest(f)
    /\ edges' = (s :> FreshEdge(f)) @@ edges
    /\ err' = "ok"
    /\ UNCHANGED <<lib, doms, fors, nextFid, files>>

CopyEdge(s, src) ==
    /\ src \in DOMAIN edges
    /\ edges' = (s :> edges[src]) @@ edges
    /\ err' = "ok"
    /\ UNCHANGED <<lib, doms, fors, nextFid, files>>

AssignEdge(s, src) ==
    /\ s \in DOMAIN edges /\ src \in DOMAIN edges
    /\ edges' = [edges EXCEPT ![s] = edges[src]]
    /\ err' = "ok"
    /\ UNCHANGED <<lib, doms, fors, nextFid, files>>

DeleteEdge(s) ==
    /\ s \in DOMAIN edges
    /\ edges' = [t \in DOMAIN edges \ {s} |-> edges[t]]
    /\ err' = "ok"
    /\ UNCHANGED <<lib, doms, fors, nextFid, files>>

\* attaching an edge to the forest it is already attached to changes nothing
AttachResult(s, f) == IF edges[s].f = f THEN edges[s] ELSE FreshEdge(f)

AttachEdge(s, f) ==
    /\ s \in DOMAIN edges
    /\ f = NoForest \/ LiveForest(f)
    /\ edges' = [edges EXCEPT ![s] = AttachResult(s, f)]
    /\ err' = "ok"
    /\ UNCHANGED <<lib, doms, fors, nextFid, files>>

-----------------------------------------------------------------------------
(* Outcomes.  An outcome is [ok, errs, fn]: either the function the call   *)
(* must produce, or the set of error codes it may raise ("ANY" in the set: *)
(* the documentation fixes no code, only that a MEDDLY::error is raised).  *)
(* err = "unmodelled": the specification does not constrain this call.     *)

Ok(fn)     == [ok |-> TRUE,  err |-> "ok", errs |-> {}, fn |-> fn]
Fail(e)    == [ok |-> FALSE, err |-> e,    errs |-> {e}, fn |-> << >>]
FailAny(S) == [ok |-> FALSE, err |-> (CHOOSE e \in S : TRUE), errs |-> S, fn |-> << >>]
Unmodelled == [ok |-> TRUE,  err |-> "unmodelled", errs |-> {}, fn |-> << >>]

\* a call that produces a function in slot s, or fails atomically (C16)
Produce(s, f, out) ==
    /\ IF out.ok
       THEN edges' = [edges EXCEPT ![s] = [f |-> f, fn |-> out.fn]]
       ELSE UNCHANGED edges
    /\ err' = out.err
    /\ UNCHANGED <<lib, doms, fors, nextFid, files>>

-----------------------------------------------------------------------------
(* Construction (C03) *)

\* does value v belong to the range of forest kind F?
InRange(F, v) ==
    CASE F.rng = "B" -> v \in {0, 1}
      [] F.lab \in {"EP", "IX"} -> TRUE
      [] OTHER -> v # Inf

\* A minterm (collection) belongs to a domain; the function is built in the
\* forest the result edge is attached to (minterms.h: "e should be attached to
\* the forest we want to create the function in").  f is the forest whose shape
\* and range the caller used for the minterms.
CollOutcome(s, f, mode, deflt, mts) ==
    IF ~(s \in DOMAIN edges) \/ ~LiveForest(f) THEN Fail("ANY")
    ELSE IF ~LiveEdge(s) THEN Fail("FOREST_MISMATCH")
    ELSE LET ft == edges[s].f IN
         IF fors[ft].d # fors[f].d \/ fors[ft].rel # fors[f].rel THEN Fail("DOMAIN_MISMATCH")
         ELSE IF fors[ft].rng # fors[f].rng \/ fors[ft].lab # fors[f].lab THEN Unmodelled
         ELSE Ok(CollFn(mode, deflt, mts, Sizes(fors[ft]), fors[ft].rel))

BuildColl(s, f, mode, deflt, mts) ==
    Produce(s, IF LiveEdge(s) THEN edges[s].f ELSE f, CollOutcome(s, f, mode, deflt, mts))

\* an integer that does not fit a terminal (recorded as OffGrid) is refused
ConstOutcome(s, f, v) ==
    IF ~(s \in DOMAIN edges) \/ ~LiveForest(f) THEN Fail("ANY")
    ELSE IF edges[s].f # f THEN Fail("ANY")        \* the code is not documented
    ELSE IF v = OffGrid /\ fors[f].lab = "MT" /\ fors[f].rng = "I" THEN Fail("VALUE_OVERFLOW")
    ELSE IF v = OffGrid THEN Unmodelled
    ELSE Ok(ConstFn(v, Sizes(fors[f]), fors[f].rel))

CreateConstant(s, f, v) == Produce(s, f, ConstOutcome(s, f, v))

VarOutcome(s, f, vh, primed, terms) ==
    IF ~(s \in DOMAIN edges) \/ ~LiveForest(f) THEN Fail("ANY")
    ELSE IF edges[s].f # f THEN Fail("ANY")        \* the code is not documented
    ELSE \* vh names a *variable*; after a reordering it sits at the level k with l2v[k] = vh
         LET lv == CHOOSE k \in 1..Len(fors[f].l2v) : fors[f].l2v[k] = vh
         IN Ok(VarFn(lv, primed, terms, UnitOf(fors[f]), Sizes(fors[f]), fors[f].rel))

CreateEdgeForVar(s, f, vh, primed, terms) == Produce(s, f, VarOutcome(s, f, vh, primed, terms))

\* Expert interface: one node at level lvl (of a set forest) assembled from an
\* unpacked node and reduced.  kids: sequence of [i, c, v] - index, child edge
\* slot (or -1 for a terminal of value v).  The children must not depend on the
\* variables at or above lvl; the result selects the child by the digit at lvl.
NodeOutcome(s, f, lvl, kids) ==
    IF ~LiveEdge(s) \/ ~LiveForest(f) \/ edges[s].f # f THEN Fail("ANY")
    ELSE IF fors[f].rel \/ \E x \in 1..Len(kids) : kids[x].c >= 0 /\ (~LiveEdge(kids[x].c) \/ edges[kids[x].c].f # f) THEN Unmodelled
    ELSE
    LET F  == fors[f]
        ds == FDS(F)
        W  == Weights(ds)
        kidAt(j) == {x \in 1..Len(kids) : kids[x].i = j}
    IN Ok([i \in 1..NPts(F) |->
              LET K == kidAt(Digit(i, lvl, ds, W)) IN
              IF K = {} THEN Transparent(F)
              ELSE LET k == kids[CHOOSE x \in K : TRUE] IN
                   IF k.c >= 0 THEN edges[k.c].fn[i] ELSE k.v])

BuildNode(s, f, lvl, kids) == Produce(s, f, NodeOutcome(s, f, lvl, kids))

-----------------------------------------------------------------------------
(* Operations *)

SameDomain(f, g) == fors[f].d = fors[g].d

BoolMT(F) == F.lab = "MT" /\ F.rng = "B"

\* value class of a forest (see MddFun scalar operations)
Cls(F) == CASE F.lab = "MT" -> F.rng
            [] F.lab \in {"EP", "IX"} -> "P"
            [] OTHER -> "T"

SameKind(F, G) == F.lab = G.lab /\ F.rng = G.rng /\ F.rel = G.rel

\* operand/result combinations the arithmetic factories build
ArithSupported(op, FA, FB, FR) ==
    /\ SameKind(FA, FR) /\ SameKind(FB, FR)
    /\ Cls(FR) \in {"I", "R", "P", "T"} /\ FR.lab # "IX"
    /\ op = "MODULO" => Cls(FR) \in {"I", "P"}
    /\ op = "DIST_MIN" => FR.lab = "MT"

CmpSupported(FA, FB, FR) ==
    /\ FA.lab = FB.lab /\ FA.rng = FB.rng /\ FA.rel = FB.rel /\ FA.rel = FR.rel
    /\ FA.lab \in {"MT", "EP", "ET"} /\ FA.rng \in {"I", "R"}
    /\ FR.lab = "MT"

\* set algebra (C04): operands and result in any MT boolean forests over the
\* same domain, all sets or all relations
SetAlgebra(op, a, b) ==
    CASE op = "UNION"        -> UnionFn(a, b)
      [] op = "INTERSECTION" -> InterFn(a, b)
      [] op = "DIFFERENCE"   -> DiffFn(a, b)

FromErrs(fn) == IF ErrsOf(fn) = {} THEN Ok(fn) ELSE FailAny(ErrsOf(fn))

ReachOps == {"REACH_FS_F", "REACH_FS_B", "REACH_NOFS_F", "REACH_NOFS_B", "REACH_SAT_F", "REACH_SAT_B"}
FwdOps   == {"REACH_FS_F", "REACH_NOFS_F", "REACH_SAT_F", "POST_IMAGE", "VM_MULTIPLY"}

\* kind of the set operand of an image / reachability call:
\*   "B" boolean, "D" MT integer distance, "P" EV+ distance, "" unsupported
ImgClass(op, FA, FB, FR) ==
    IF ~( ~FA.rel /\ FB.rel /\ ~FR.rel /\ BoolMT(FB) /\ SameKind(FA, FR) ) THEN ""
    ELSE IF BoolMT(FA) THEN "B"
    ELSE IF FA.lab = "MT" /\ FA.rng = "I" /\ FR.rule = "F"
            /\ op \notin {"REACH_FS_F", "REACH_FS_B"} THEN "D"
    ELSE IF FA.lab = "EP" /\ op \notin {"REACH_FS_F", "REACH_FS_B"} THEN "P"
    ELSE ""

BinaryOutcome(op, r, a, b) ==
    IF ~LiveEdge(r) \/ ~LiveEdge(a) \/ ~LiveEdge(b) THEN Fail("ANY")
    ELSE
    LET fr == edges[r].f  fa == edges[a].f  fb == edges[b].f
        FR == fors[fr]    FA == fors[fa]    FB == fors[fb]
        A  == edges[a].fn B  == edges[b].fn
    IN
    IF ~SameDomain(fa, fb) \/ ~SameDomain(fa, fr) THEN Fail("DOMAIN_MISMATCH")
    ELSE
    CASE op \in {"UNION", "INTERSECTION", "DIFFERENCE"} ->
            IF BoolMT(FA) /\ BoolMT(FB) /\ BoolMT(FR) /\ FA.rel = FB.rel /\ FA.rel = FR.rel
            THEN Ok(SetAlgebra(op, A, B))
            ELSE IF FA.lab = "MT" /\ FB.lab = "MT" /\ FR.lab = "MT" /\ FA.rel = FB.rel /\ FA.rel = FR.rel
                 THEN Unmodelled        \* non-boolean multi-terminal operands: not documented
                 ELSE Fail("TYPE_MISMATCH")
      [] op = "CROSS" ->
            IF BoolMT(FA) /\ BoolMT(FB) /\ BoolMT(FR) /\ ~FA.rel /\ ~FB.rel /\ FR.rel
            THEN Ok(CrossFn(A, B, Sizes(FA)))
            ELSE Fail("TYPE_MISMATCH")
      [] op \in ArithOps ->
            IF ArithSupported(op, FA, FB, FR)
            THEN FromErrs(ArithFn(op, Cls(FR), A, B))
            ELSE IF FA.rel # FB.rel \/ FA.rel # FR.rel THEN Fail("TYPE_MISMATCH")
            ELSE IF FA.lab # FR.lab \/ FB.lab # FR.lab \/ FA.rng # FR.rng \/ FB.rng # FR.rng
                 THEN FailAny({"TYPE_MISMATCH", "NOT_IMPLEMENTED"})     \* labeling / range mismatch
            ELSE Unmodelled
      [] op \in CmpOps ->
            IF CmpSupported(FA, FB, FR)
            THEN Ok(CmpFn(op, A, B, UnitOf(FR)))
            ELSE IF FA.rel # FB.rel \/ FA.rel # FR.rel THEN Fail("TYPE_MISMATCH")
            ELSE Unmodelled
      [] op \in {"PRE_IMAGE", "POST_IMAGE"} ->
            LET c == ImgClass(op, FA, FB, FR)  pairs == RelPairs(Sizes(FA)) IN
            IF c = "B" THEN Ok(IF op = "POST_IMAGE" THEN PostImageB(A, B, pairs) ELSE PreImageB(A, B, pairs))
            ELSE IF c = "D" THEN Ok(DistImage(op = "POST_IMAGE", A, B, pairs, FALSE))
            ELSE IF c = "P" THEN Ok(DistImage(op = "POST_IMAGE", A, B, pairs, TRUE))
            ELSE Unmodelled
      [] op \in {"VM_MULTIPLY", "MV_MULTIPLY"} ->
            \* VM: vector a, matrix b;  MV: matrix a, vector b
            LET FV == IF op = "VM_MULTIPLY" THEN FA ELSE FB
                FM == IF op = "VM_MULTIPLY" THEN FB ELSE FA
                V  == IF op = "VM_MULTIPLY" THEN A ELSE B
                M  == IF op = "VM_MULTIPLY" THEN B ELSE A
            IN IF /\ ~FV.rel /\ FM.rel /\ ~FR.rel
                  /\ FV.lab = "MT" /\ FM.lab = "MT" /\ FR.lab = "MT"
                  /\ FV.rng = FR.rng /\ FM.rng = FR.rng /\ FR.rng \in {"I", "R"}
               THEN Ok(VecMat(op = "VM_MULTIPLY", V, M, RelPairs(Sizes(FV)), FR.rng = "R"))
               \* a boolean or integer matrix with an integer or real vector: the matrix
               \* entries are plain integers, the (scaled) vector entries are multiplied by them
               ELSE IF /\ ~FV.rel /\ FM.rel /\ ~FR.rel
                       /\ FV.lab = "MT" /\ FM.lab = "MT" /\ FR.lab = "MT"
                       /\ FV.rng = FR.rng /\ FR.rng \in {"I", "R"} /\ FM.rng \in {"B", "I"}
               THEN LET raw == VecMat(op = "VM_MULTIPLY", V, M, RelPairs(Sizes(FV)), FALSE)
                    IN Ok([i \in DOMAIN raw |-> IF Bad(raw[i]) THEN OffGrid ELSE Guard(raw[i], FR.rng = "R")])
               ELSE Unmodelled
      [] op \in ReachOps ->
            LET c == ImgClass(op, FA, FB, FR)  pairs == RelPairs(Sizes(FA))  fwd == op \in FwdOps IN
            IF c = "B" THEN Ok(ReachB(fwd, A, B, pairs))
            ELSE IF c = "D" THEN Ok(ReachD(fwd, A, B, pairs, FALSE))
            ELSE IF c = "P" THEN Ok(ReachD(fwd, A, B, pairs, TRUE))
            ELSE Unmodelled
      [] OTHER -> Unmodelled

ApplyBinary(op, r, a, b) ==
    LET out == BinaryOutcome(op, r, a, b)
    IN  /\ out.err # "unmodelled"
        /\ Produce(r, IF LiveEdge(r) THEN edges[r].f ELSE NoForest, out)

\* scalar conversion of COPY between value classes
ConvertV(FS, FD, v) ==
    LET cs == Cls(FS)  cd == Cls(FD) IN
    IF Bad(v) THEN OffGrid
    ELSE IF v = Inf THEN (IF cd = "P" THEN Inf ELSE OffGrid)       \* infinity -> non-EV+: not documented
    ELSE CASE cd = "B" -> IF v # 0 THEN 1 ELSE 0
           [] cd \in {"I", "P"} ->
                IF cs \in {"R", "T"} THEN (IF v % 64 = 0 THEN TruncDiv(v, 64) ELSE OffGrid) ELSE v
           [] OTHER ->         \* real-valued destination
                IF cs \in {"R", "T"} THEN v ELSE Guard(SafeMul(v, 64), TRUE)

CopyFn(FS, FD, f) == [i \in DOMAIN f |-> ConvertV(FS, FD, f[i])]

UnaryOutcome(op, r, a) ==
    IF ~LiveEdge(r) \/ ~LiveEdge(a) THEN Fail("ANY")
    ELSE
    LET fr == edges[r].f  fa == edges[a].f
        FR == fors[fr]    FA == fors[fa]
        A  == edges[a].fn
    IN
    IF ~SameDomain(fa, fr) THEN Fail("DOMAIN_MISMATCH")
    ELSE
    CASE op = "COMPLEMENT" ->
            IF BoolMT(FA) /\ BoolMT(FR) /\ FA.rel = FR.rel
            THEN Ok(ComplFn(A))
            ELSE IF FA.rel # FR.rel THEN Fail("TYPE_MISMATCH") ELSE Unmodelled
      [] op = "COPY" ->
            IF FA.rel # FR.rel THEN Fail("TYPE_MISMATCH")
            ELSE Ok(CopyFn(FA, FR, A))
      [] op = "DIST_INC" ->
            IF FA.lab = "MT" /\ FR.lab = "MT" /\ FA.rng = "I" /\ FR.rng = "I" /\ FA.rel = FR.rel
            THEN Ok(DistIncFn(A)) ELSE Unmodelled
      [] op \in UserOps ->
            IF /\ FA.rel = FR.rel
               /\ Cls(FA) \in {"I", "R", "P"} /\ FA.lab # "IX"
               /\ IF op \in UserBoolOps THEN BoolMT(FR) ELSE SameKind(FA, FR)
            THEN Ok(UserFn(op, FA.rng = "R", A)) ELSE Unmodelled
      [] op = "TOINDEX" ->
            IF BoolMT(FA) /\ ~FA.rel /\ FR.lab = "IX" /\ ~FR.rel
            THEN Ok(IndexSetFn(A)) ELSE Unmodelled
      [] OTHER -> Unmodelled

ApplyUnary(op, r, a) ==
    LET out == UnaryOutcome(op, r, a)
    IN  /\ out.err # "unmodelled"
        /\ Produce(r, IF LiveEdge(r) THEN edges[r].f ELSE NoForest, out)

\* saturation over a partitioned relation (C20): events are boolean relation
\* edges of one forest; the result is reachability under their union
RECURSIVE UnionAll(_, _)
UnionAll(evs, n) == IF n = 1 THEN edges[evs[1]].fn ELSE UnionFn(UnionAll(evs, n-1), edges[evs[n]].fn)

SatOutcome(r, init, evs) ==
    IF ~LiveEdge(r) \/ ~LiveEdge(init) \/ Len(evs) = 0 \/ \E x \in 1..Len(evs) : ~LiveEdge(evs[x]) THEN Fail("ANY")
    ELSE
    LET FR == fors[edges[r].f]  FI == fors[edges[init].f]  FE == fors[edges[evs[1]].f] IN
    \* "inset and outset must be the same forest" (sat_pregen.cc)
    IF edges[r].f # edges[init].f THEN Fail("FOREST_MISMATCH")
    ELSE
    IF /\ \A x \in 1..Len(evs) : edges[evs[x]].f = edges[evs[1]].f
       /\ BoolMT(FR) /\ BoolMT(FI) /\ BoolMT(FE) /\ ~FR.rel /\ ~FI.rel /\ FE.rel
       /\ FR.d = FI.d /\ FR.d = FE.d
    THEN Ok(ReachB(TRUE, edges[init].fn, UnionAll(evs, Len(evs)), RelPairs(Sizes(FI))))
    ELSE Unmodelled

\* reordering (C13): every edge of forest f is permuted, nothing else changes
ReorderedEdges(f, newl2v) ==
    [s \in DOMAIN edges |->
        IF edges[s].f = f
        THEN [f |-> f, fn |-> PermuteFn(edges[s].fn, fors[f].l2v, newl2v, FSizes(f), fors[f].rel)]
        ELSE edges[s]]

-----------------------------------------------------------------------------
(* Exchange files (C14): writing records the functions in order; reading    *)
(* returns them in the same order, into any forest of the same kind.        *)

KindOf(F) == [rel |-> F.rel, rng |-> F.rng, lab |-> F.lab]

WriteEdges(b, f, es) ==
    /\ LiveForest(f) /\ \A x \in 1..Len(es) : LiveEdge(es[x]) /\ edges[es[x]].f = f
    /\ files' = (b :> [kind |-> KindOf(fors[f]), sizes |-> FSizes(f), rule |-> fors[f].rule,
                       fns |-> [x \in 1..Len(es) |-> edges[es[x]].fn]]) @@ files
    /\ err' = "ok"
    /\ UNCHANGED <<lib, doms, fors, edges, nextFid>>

\* reading n roots of file b into forest f, slots es
ReadEdges(b, f, es) ==
    /\ LiveForest(f) /\ b \in DOMAIN files
    /\ KindOf(fors[f]) = files[b].kind /\ FSizes(f) = files[b].sizes
    /\ Len(es) <= Len(files[b].fns)
    /\ edges' = [s \in DOMAIN edges \cup {es[x] : x \in 1..Len(es)} |->
                    IF \E x \in 1..Len(es) : es[x] = s
                    THEN [f |-> f, fn |-> files[b].fns[CHOOSE x \in 1..Len(es) : es[x] = s]]
                    ELSE edges[s]]
    /\ err' = "ok"
    /\ UNCHANGED <<lib, doms, fors, nextFid, files>>

\* reordering (C13)
Reorder(f, newl2v) ==
    /\ LiveForest(f)
    /\ edges' = ReorderedEdges(f, newl2v)
    /\ fors' = [fors EXCEPT ![f].l2v = newl2v]
    /\ err' = "ok"
    /\ UNCHANGED <<lib, doms, nextFid, files>>

-----------------------------------------------------------------------------
(* Properties of the state machine *)

TypeOK ==
    /\ lib \in BOOLEAN
    /\ \A s \in DOMAIN edges :
          \/ edges[s] = DetachedEdge
          \/ /\ edges[s].f \in DOMAIN fors
             /\ Len(edges[s].fn) = NPts(fors[edges[s].f])

\* C17: an attached edge always belongs to a live forest; edges of destroyed
\* forests are detached
AttachedIsLive == \A s \in DOMAIN edges : edges[s].f # NoForest => LiveForest(edges[s].f)

\* C17: forest identifiers are never reused within one initialisation
FidUnique ==
    \A f, g \in DOMAIN fors :
        (f # g /\ fors[f].alive /\ fors[g].alive) => fors[f].fid # fors[g].fid

\* C16: an error step changes nothing but err
ErrorAtomic == [][err' # "ok" => UNCHANGED <<lib, doms, fors, edges, nextFid, files>>]_vars

=============================================================================
