------------------------------ MODULE Saturation ------------------------------
(***************************************************************************)
(* Design-level model of saturation-based reachability (satur_sets.cc) and *)
(* of its two operation caches, over a domain of K = 2 variables.          *)
(*                                                                         *)
(* States are pairs <<x2, x1>>; a relation is a set of pairs of states.    *)
(* The algorithm splits the relation by top level:                         *)
(*    Diag(R)  - the "common diagonal": the lower-level relation D such    *)
(*               that  <<i, u>> -> <<i, v>>  is in R for *every* i         *)
(*               (moves that do not depend on x2 and leave it unchanged);  *)
(*    Exact(R) - R without those moves (the events whose top level is 2).  *)
(* A set is saturated bottom-up: the children (the x1-sets under each x2)  *)
(* are closed under Diag(R); then the events of Exact(R) are fired,        *)
(*    RecFire(A, B, L) = Close(Image(A, B), L)                             *)
(* where A is the x1-set under the source index, B the x1-relation under   *)
(* the (i, j) entry of the top node, and L = Diag(R) the relation at or    *)
(* below level 1 with which the result is saturated again; until nothing   *)
(* changes.                                                                *)
(*                                                                         *)
(* RecFire results are cached *across calls*: the operation object and its *)
(* compute table live as long as the forests.  The constant Key selects    *)
(* the cache key:                                                          *)
(*    "ABL" - (A, B, L): the design after the repair                       *)
(*    "AB"  - (A, B) only: the shipped code before commit d5b6316; TLC     *)
(*            refutes Correct with a second call whose relation shares B   *)
(*            but has a different diagonal.                                *)
(***************************************************************************)
EXTENDS Integers, Sequences, FiniteSets, TLC

CONSTANTS S,        \* size of both variables
          Rels,     \* the relations the user may pass (a set of sets of <<from, to>>)
          Inits,    \* the initial sets the user may pass
          MaxCalls, \* bound on the number of calls in one behaviour
          Key       \* "AB" or "ABL"

V1 == 0..(S-1)
States == V1 \X V1

VARIABLES cache,    \* set of [a, b, l, r]: RecFire(a, b, l) = r as computed when the entry was added
          last,     \* [init, rel, res] of the last call, or << >>
          ncalls

vars == <<cache, last, ncalls>>

-----------------------------------------------------------------------------
(* relations over x1 alone: sets of <<u, v>> *)

Image1(A, B) == {p[2] : p \in {q \in B : q[1] \in A}}

RECURSIVE Close1(_, _)
Close1(A, L) == LET n == A \cup Image1(A, L) IN IF n = A THEN A ELSE Close1(n, L)

\* the split of a two-level relation
Sub(R, i, j) == {<<p[1][2], p[2][2]>> : p \in {q \in R : q[1][1] = i /\ q[2][1] = j}}
Diag(R)      == {m \in V1 \X V1 : \A i \in V1 : m \in Sub(R, i, i)}
ExactSub(R, i, j) == IF i = j THEN Sub(R, i, i) \ Diag(R) ELSE Sub(R, i, j)

\* least fixed point, the specification of the whole operation
RECURSIVE Reach(_, _)
Reach(X, R) == LET n == X \cup {p[2] : p \in {q \in R : q[1] \in X}} IN IF n = X THEN X ELSE Reach(n, R)

-----------------------------------------------------------------------------
(* the algorithm, threading the cache *)

KeyMatch(e, A, B, L) == e.a = A /\ e.b = B /\ (Key = "AB" \/ e.l = L)

\* RecFire with the cache: returns [c, r]
RecFire(c, A, B, L) ==
    IF A = {} \/ B = {} THEN [c |-> c, r |-> {}]
    ELSE LET hits == {e \in c : KeyMatch(e, A, B, L)} IN
         IF hits # {} THEN [c |-> c, r |-> (CHOOSE e \in hits : TRUE).r]
         ELSE LET r == Close1(Image1(A, B), L)
              IN [c |-> c \cup {[a |-> A, b |-> B, l |-> L, r |-> r]}, r |-> r]

\* fire every top-level event once, in a fixed order, threading cache and node
RECURSIVE FireAll(_, _, _, _)
\* node: function V1 -> subset of V1 (the x1-set under each x2); todo: sequence of <<i, j>>
FireAll(c, node, R, todo) ==
    IF todo = << >> THEN [c |-> c, node |-> node]
    ELSE LET i == todo[1][1]  j == todo[1][2]
             f == RecFire(c, node[i], ExactSub(R, i, j), Diag(R))
             n2 == [node EXCEPT ![j] = @ \cup f.r]
         IN FireAll(f.c, n2, R, [k \in 1..(Len(todo)-1) |-> todo[k+1]])

Pairs == LET P == V1 \X V1
             RECURSIVE seqOf(_)
             seqOf(T) == IF T = {} THEN << >> ELSE LET x == CHOOSE y \in T : TRUE IN <<x>> \o seqOf(T \ {x})
         IN seqOf(P)

RECURSIVE SatLoop(_, _, _)
SatLoop(c, node, R) ==
    LET f == FireAll(c, node, R, Pairs)
    IN IF f.node = node THEN [c |-> f.c, node |-> node] ELSE SatLoop(f.c, f.node, R)

\* the whole call: saturate the children with the diagonal, then the top node
Saturate(c, X, R) ==
    LET node0 == [i \in V1 |-> Close1({s[2] : s \in {t \in X : t[1] = i}}, Diag(R))]
        f == SatLoop(c, node0, R)
    IN [c |-> f.c, res |-> {<<i, u>> : i \in V1, u \in V1} \cap {s \in States : s[2] \in f.node[s[1]]}]

-----------------------------------------------------------------------------
Init == cache = {} /\ last = << >> /\ ncalls = 0

Call(X, R) ==
    LET f == Saturate(cache, X, R) IN
    /\ ncalls < MaxCalls
    /\ cache' = f.c
    /\ last' = [init |-> X, rel |-> R, res |-> f.res]
    /\ ncalls' = ncalls + 1

Next == \E X \in Inits, R \in Rels : Call(X, R)

Spec == Init /\ [][Next]_vars

\* C08: every call returns exactly the least fixed point, whatever was computed before
Correct == last # << >> => last.res = Reach(last.init, last.rel)

\* C07-style soundness of the cache: an entry is what RecFire would compute now *for its own L*
CacheSound == \A e \in cache : e.r = Close1(Image1(e.a, e.b), e.l)

=============================================================================
