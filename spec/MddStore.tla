------------------------------- MODULE MddStore -------------------------------
(***************************************************************************)
(* Store level of the MEDDLY specification: reduced nodes behind node      *)
(* handles, the unique table, incoming and cache counts, the free-handle   *)
(* list, root edges and a compute table - for one multi-terminal boolean   *)
(* set forest (fully- or quasi-reduced) over K levels of size S.           *)
(*                                                                         *)
(* One action per public call (the library is sequential; properties are   *)
(* stated between calls).  What a call does internally is written as the   *)
(* functional program the code runs - reduce, look up, insert, link,       *)
(* unlink, lastUnlink, deleteNode, recycleNodeHandle, cacheNode,           *)
(* uncacheNode, lastUncache, CT find / discard-dead / add - threading the  *)
(* store record, named after forest.cc / node_headers.cc / ct_styles.cc.   *)
(*                                                                         *)
(* Bug selects a seeded deviation of the design ("none" = the design);     *)
(* TLC must refute the invariants for every other value - evidence that    *)
(* the invariants are not vacuous.                                         *)
(***************************************************************************)
EXTENDS MddNodes

CONSTANTS
    H,          \* node handles 1..H
    K,          \* number of levels
    S,          \* size of every level
    Rule,       \* "F" fully-reduced, "Q" quasi-reduced
    Pess,       \* TRUE: pessimistic deletion, FALSE: optimistic
    NSlots,     \* root edges held by the user
    MaxCT,      \* compute-table capacity (an add into a full table overwrites)
    Bug

VARIABLES
    st,         \* the store: [status, lvl, down, inc, cc, ct]
    roots,      \* slot |-> node handle of the root edge (0: FALSE, -1: TRUE)
    ghost       \* slot |-> the function the user expects the edge to denote

svars == <<st, roots, ghost>>

Handles == 1..H
Slots   == 1..NSlots
Sizes   == [k \in 1..K |-> S]
NP      == NPoints(Sizes)
Fns     == [1..NP -> {0, 1}]
ZeroFn  == [i \in 1..NP |-> 0]
Kind    == [rel |-> FALSE, lab |-> "MT", rule |-> Rule]

TRUEH == -1      \* terminal handle of TRUE; 0 is FALSE (the transparent terminal)

-----------------------------------------------------------------------------
(* The node table seen through the public inspection interface *)

ActiveSet(s) == {h \in Handles : s.status[h] = "active"}

NodeTable(s) ==
    [h \in ActiveSet(s) |->
        [l |-> s.lvl[h], sz |-> S,
         c |-> LET nz == {j \in 1..S : s.down[h][j] # 0}
                   RECURSIVE seqOf(_)
                   seqOf(T) == IF T = {} THEN << >>
                               ELSE LET j == CHOOSE x \in T : \A y \in T : x <= y
                                    IN << <<j-1, s.down[h][j], 0, IF s.down[h][j] = TRUEH THEN 1 ELSE 0>> >> \o seqOf(T \ {j})
               IN seqOf(nz)]]

DenoteH(s, d) == DenoteRoot(NodeTable(s), Kind, Sizes, d, 0, IF d = TRUEH THEN 1 ELSE 0)

-----------------------------------------------------------------------------
(* node_headers: link / unlink / cache / uncache *)

Link(s, h) == IF h > 0 THEN [s EXCEPT !.inc[h] = @ + 1] ELSE s

RecycleHandle(s, h) == [s EXCEPT !.status[h] = "free"]

RECURSIVE Unlink(_, _), DeleteNode(_, _), UnlinkSeq(_, _, _)

\* forest::deleteNode: storage released, children unlinked; handle kept ("dead")
DeleteNode(s, h) ==
    LET s1 == [s EXCEPT !.status[h] = "dead"]
    IN IF Bug = "delete-keeps-children" THEN s1 ELSE UnlinkSeq(s1, s.down[h], S)

UnlinkSeq(s, seq, n) == IF n = 0 THEN s ELSE UnlinkSeq(Unlink(s, seq[n]), seq, n - 1)

\* node_headers::lastUnlink
LastUnlink(s, h) ==
    IF s.cc[h] = 0 \/ Bug = "recycle-ignores-cache-count"
    THEN RecycleHandle(DeleteNode(s, h), h)
    ELSE IF Pess THEN DeleteNode(s, h) ELSE s

Unlink(s, h) ==
    IF h <= 0 THEN s
    ELSE LET s1 == [s EXCEPT !.inc[h] = @ - 1]
         IN IF s1.inc[h] > 0 THEN s1 ELSE LastUnlink(s1, h)

CacheNode(s, h) == IF h > 0 THEN [s EXCEPT !.cc[h] = @ + 1] ELSE s

\* node_headers::lastUncache
LastUncache(s, h) ==
    IF s.status[h] = "dead" THEN RecycleHandle(s, h)
    ELSE IF s.inc[h] = 0 THEN RecycleHandle(DeleteNode(s, h), h)
    ELSE s

UncacheNode(s, h) ==
    IF h <= 0 THEN s
    ELSE LET s1 == [s EXCEPT !.cc[h] = @ - 1]
         IN IF s1.cc[h] > 0 THEN s1 ELSE LastUncache(s1, h)

-----------------------------------------------------------------------------
(* forest::createReducedNode.  ch: S child handles whose references the    *)
(* caller owns.  Returns [s, h, ok]: h carries one reference; ok = FALSE   *)
(* when the model ran out of handles (the call is then not enabled).       *)

AllEqual(ch) == \A j \in 2..S : ch[j] = ch[1]

FreeHandles(s) == {h \in Handles : s.status[h] = "free"}

MkNode(s, k, ch) ==
    IF \A j \in 1..S : ch[j] = 0 THEN [s |-> s, h |-> 0, ok |-> TRUE]                 \* transparent node
    ELSE IF Rule = "F" /\ AllEqual(ch) /\ Bug # "keeps-redundant"
         THEN [s |-> UnlinkSeq(s, ch, S - 1), h |-> ch[S], ok |-> TRUE]              \* redundant node: keep one reference
    ELSE LET dup == {h \in ActiveSet(s) : s.lvl[h] = k /\ s.down[h] = ch}
         IN IF dup # {} /\ Bug # "skips-unique-table"
            THEN LET h == CHOOSE x \in dup : TRUE
                 IN [s |-> Link(UnlinkSeq(s, ch, S), h), h |-> h, ok |-> TRUE]      \* unique-table hit
            ELSE IF FreeHandles(s) = {} THEN [s |-> s, h |-> 0, ok |-> FALSE]
            ELSE LET h == CHOOSE x \in FreeHandles(s) : \A y \in FreeHandles(s) : x <= y
                 IN [s |-> [s EXCEPT !.status[h] = "active", !.lvl[h] = k, !.down[h] = ch, !.inc[h] = 1],
                     h |-> h, ok |-> TRUE]

\* build the canonical diagram of a function table over levels 1..k
RECURSIVE BuildFn(_, _, _), BuildKids(_, _, _, _, _)
BuildFn(s, k, f) ==
    IF \A i \in DOMAIN f : f[i] = 0 THEN [s |-> s, h |-> 0, ok |-> TRUE]
    ELSE IF k = 0 THEN [s |-> s, h |-> TRUEH, ok |-> TRUE]
    ELSE LET r == BuildKids(s, k, f, 1, << >>)
         IN IF ~r.ok THEN [s |-> r.s, h |-> 0, ok |-> FALSE] ELSE MkNode(r.s, k, r.ch)

BuildKids(s, k, f, j, acc) ==
    IF j > S THEN [s |-> s, ch |-> acc, ok |-> TRUE]
    ELSE LET below == Len(f) \div S
             sub   == [i \in 1..below |-> f[(j-1) * below + i]]
             r     == BuildFn(s, k - 1, sub)
         IN IF ~r.ok THEN [s |-> r.s, ch |-> acc, ok |-> FALSE]
            ELSE BuildKids(r.s, k, f, j + 1, Append(acc, r.h))

-----------------------------------------------------------------------------
(* The compute table of one binary operation (union); ct_styles.cc *)

EntryNodes(e) == {n \in {e.a, e.b, e.r} : n > 0}

RECURSIVE UncacheSet(_, _)
UncacheSet(s, T) == IF T = {} THEN s ELSE LET n == CHOOSE x \in T : TRUE IN UncacheSet(UncacheNode(s, n), T \ {n})

\* an entry mentions each of its nodes once per slot: a, b, r
RECURSIVE UncacheSlots(_, _)
UncacheSlots(s, seq) == IF seq = << >> THEN s ELSE UncacheSlots(UncacheNode(s, Head(seq)), Tail(seq))

RemoveEntry(s, e) == UncacheSlots([s EXCEPT !.ct = @ \ {e}], <<e.a, e.b, e.r>>)

AddEntry(s, a, b, r) ==
    LET s0 == IF Cardinality(s.ct) >= MaxCT
              THEN RemoveEntry(s, CHOOSE e \in s.ct : TRUE)         \* unchained table: overwrite
              ELSE s
        e  == [a |-> a, b |-> b, r |-> r]
    IN IF e \in s0.ct THEN s0
       ELSE CacheNode(CacheNode(CacheNode([s0 EXCEPT !.ct = @ \cup {e}], a), b), r)

DeadEntry(s, e) == \E n \in EntryNodes(e) : s.status[n] # "active"
StaleEntry(s, e) == \E n \in EntryNodes(e) : s.status[n] # "active" \/ s.inc[n] = 0

-----------------------------------------------------------------------------
(* union_mt::_compute in one forest.  Returns [s, h, ok, hitdead]          *)
LevelOf(s, h) == IF h > 0 THEN s.lvl[h] ELSE 0
Max2L(a, b) == IF a >= b THEN a ELSE b

RECURSIVE OrRec(_, _, _, _), OrKids(_, _, _, _, _, _)
OrRec(s, k, a, b) ==
    IF a = 0 THEN [s |-> Link(s, b), h |-> b, ok |-> TRUE, hitdead |-> FALSE]
    ELSE IF b = 0 \/ a = b THEN [s |-> Link(s, a), h |-> a, ok |-> TRUE, hitdead |-> FALSE]
    ELSE IF a = TRUEH \/ b = TRUEH
         THEN \* a terminal TRUE above level 0 exists only in a fully-reduced forest: all ones
              [s |-> s, h |-> TRUEH, ok |-> TRUE, hitdead |-> FALSE]
    ELSE
    LET x == IF a <= b THEN a ELSE b
        y == IF a <= b THEN b ELSE a
        found == {e \in s.ct : e.a = x /\ e.b = y}
        e == CHOOSE z \in found : TRUE
        discard == found # {} /\ DeadEntry(s, e) /\ Bug # "hit-ignores-dead-nodes"
        s1 == IF discard THEN RemoveEntry(s, e) ELSE s
    IN
    IF found # {} /\ ~discard
    THEN [s |-> Link(s, e.r), h |-> e.r, ok |-> TRUE, hitdead |-> DeadEntry(s, e)]
    ELSE
    LET top == Max2L(LevelOf(s1, x), LevelOf(s1, y))
        r   == OrKids(s1, top, x, y, 1, << >>)
    IN IF ~r.ok THEN [s |-> r.s, h |-> 0, ok |-> FALSE, hitdead |-> r.hitdead]
       ELSE LET m == MkNode(r.s, top, r.ch)
            IN IF ~m.ok THEN [s |-> m.s, h |-> 0, ok |-> FALSE, hitdead |-> r.hitdead]
               ELSE [s |-> AddEntry(m.s, x, y, m.h), h |-> m.h, ok |-> TRUE, hitdead |-> r.hitdead]

OrKids(s, top, x, y, j, acc) ==
    IF j > S THEN [s |-> s, ch |-> acc, ok |-> TRUE, hitdead |-> FALSE]
    ELSE LET xj == IF LevelOf(s, x) = top THEN s.down[x][j] ELSE x      \* skipped level: redundant
             yj == IF LevelOf(s, y) = top THEN s.down[y][j] ELSE y
             r  == OrRec(s, top - 1, xj, yj)
         IN IF ~r.ok THEN [s |-> r.s, ch |-> acc, ok |-> FALSE, hitdead |-> r.hitdead]
            ELSE LET rest == OrKids(r.s, top, x, y, j + 1, Append(acc, r.h))
                 IN [rest EXCEPT !.hitdead = @ \/ r.hitdead]

-----------------------------------------------------------------------------
(* Public calls *)

EmptyStore ==
    [status |-> [h \in Handles |-> "free"], lvl |-> [h \in Handles |-> 0],
     down |-> [h \in Handles |-> [j \in 1..S |-> 0]],
     inc |-> [h \in Handles |-> 0], cc |-> [h \in Handles |-> 0], ct |-> {}]

Init ==
    /\ st = EmptyStore
    /\ roots = [x \in Slots |-> 0]
    /\ ghost = [x \in Slots |-> ZeroFn]

\* the edge in slot x takes a new root h (one reference owned); the old root is released
SetRoot(s, x, h) == Unlink(s, roots[x])

\* buildFunction: slot x := f
Build(x, f) ==
    LET r == BuildFn(st, K, f) IN
    /\ r.ok
    /\ st' = (IF Bug = "release-forgets-unlink" THEN r.s ELSE SetRoot(r.s, x, r.h))
    /\ roots' = [roots EXCEPT ![x] = r.h]
    /\ ghost' = [ghost EXCEPT ![x] = f]

\* apply(UNION, a, b, x)
Union(x, a, b) ==
    LET r == OrRec(st, K, roots[a], roots[b]) IN
    /\ r.ok
    /\ st' = SetRoot(r.s, x, r.h)
    /\ roots' = [roots EXCEPT ![x] = r.h]
    /\ ghost' = [ghost EXCEPT ![x] = UnionFn(ghost[a], ghost[b])]

\* dd_edge assignment / copy: x := a
CopyEdge(x, a) ==
    /\ x # a
    /\ st' = SetRoot(Link(st, roots[a]), x, roots[a])
    /\ roots' = [roots EXCEPT ![x] = roots[a]]
    /\ ghost' = [ghost EXCEPT ![x] = ghost[a]]

\* the edge is released (cleared)
Release(x) ==
    /\ roots[x] # 0
    /\ st' = Unlink(st, roots[x])
    /\ roots' = [roots EXCEPT ![x] = 0]
    /\ ghost' = [ghost EXCEPT ![x] = ZeroFn]

RECURSIVE RemoveAll(_, _)
RemoveAll(s, T) == IF T = {} THEN s ELSE LET e == CHOOSE z \in T : TRUE IN RemoveAll(RemoveEntry(s, e), T \ {e})

\* removeAllComputeTableEntries
ClearCT ==
    /\ st.ct # {}
    /\ st' = RemoveAll(st, st.ct)
    /\ UNCHANGED <<roots, ghost>>

\* removeStales
RemoveStales ==
    /\ \E e \in st.ct : StaleEntry(st, e)
    /\ st' = RemoveAll(st, {e \in st.ct : StaleEntry(st, e)})
    /\ UNCHANGED <<roots, ghost>>

Next ==
    \/ \E x \in Slots, f \in Fns : Build(x, f)
    \/ \E x, a, b \in Slots : Union(x, a, b)
    \/ \E x, a \in Slots : CopyEdge(x, a)
    \/ \E x \in Slots : Release(x)
    \/ ClearCT
    \/ RemoveStales

Spec == Init /\ [][Next]_svars

-----------------------------------------------------------------------------
(* Properties (all stated between calls) *)

N == NodeTable(st)

TypeOK ==
    /\ \A h \in Handles : st.status[h] \in {"free", "active", "dead"} /\ st.inc[h] >= 0 /\ st.cc[h] >= 0
    /\ \A x \in Slots : roots[x] \in {0, TRUEH} \cup Handles

\* C06: recorded incoming count = parent slots + root edges
RootRefs(h) == Cardinality({x \in Slots : roots[x] = h})
RefExact == \A h \in ActiveSet(st) : st.inc[h] = ParentRefs(N, h) + RootRefs(h)

\* C06: nothing live points at a reclaimed node; held edges point at live nodes
NoDangling ==
    /\ \A h \in ActiveSet(st) : \A j \in 1..S : st.down[h][j] > 0 => st.down[h][j] \in ActiveSet(st)
    /\ \A x \in Slots : roots[x] > 0 => roots[x] \in ActiveSet(st)

\* C07: cache count = number of entry slots naming the node
SlotRefs(e, h) == (IF e.a = h THEN 1 ELSE 0) + (IF e.b = h THEN 1 ELSE 0) + (IF e.r = h THEN 1 ELSE 0)
CacheRefs(h) == SumOverSet(st.ct, LAMBDA e : SlotRefs(e, h))
CacheExact == \A h \in Handles : st.cc[h] = CacheRefs(h)

\* C06: a handle is on the free list only when nothing refers to it
FreeMeansUnreferenced ==
    \A h \in Handles : st.status[h] = "free" =>
        /\ st.inc[h] = 0 /\ st.cc[h] = 0
        /\ \A g \in ActiveSet(st) : \A j \in 1..S : st.down[g][j] # h
        /\ \A x \in Slots : roots[x] # h
        /\ \A e \in st.ct : h \notin EntryNodes(e)

\* C02: every stored node obeys the rule
WellFormed == \A h \in ActiveSet(st) : WellFormedNode(N, Kind, h)

\* C01: distinct live nodes denote distinct functions (per level), hence
\* equal functions <=> equal edges
Canonical ==
    \A g, h \in ActiveSet(st) :
        (g # h /\ st.lvl[g] = st.lvl[h]) =>
            Den(N, Kind, Sizes, st.lvl[g], g, 0, -1) # Den(N, Kind, Sizes, st.lvl[h], h, 0, -1)

RootsCanonical == \A x, y \in Slots : (roots[x] = roots[y]) <=> (ghost[x] = ghost[y])

\* refinement of the API level: every held edge denotes the function the user expects
Refines == \A x \in Slots : DenoteH(st, roots[x]) = ghost[x]

\* C07: every entry all of whose nodes are live tells the truth
CTSound ==
    \A e \in st.ct : ~DeadEntry(st, e) =>
        DenoteH(st, e.r) = UnionFn(DenoteH(st, e.a), DenoteH(st, e.b))

\* C06: with no user edge (and, optimistic, no cache entry) nothing remains
ReclaimAll ==
    (\A x \in Slots : roots[x] = 0) =>
        IF Pess THEN ActiveSet(st) = {}
        ELSE (st.ct = {} => ActiveSet(st) = {} /\ \A h \in Handles : st.status[h] = "free")

\* a dead node keeps its handle only while the cache mentions it
DeadOnlyWhileCached == \A h \in Handles : st.status[h] = "dead" => st.cc[h] > 0

\* action property: a cache hit never returns an entry that mentions a reclaimed node
HitNeverDead ==
    [][\A x, a, b \in Slots : Union(x, a, b) => ~OrRec(st, K, roots[a], roots[b]).hitdead]_svars

Inv ==
    /\ TypeOK /\ RefExact /\ NoDangling /\ CacheExact /\ FreeMeansUnreferenced
    /\ WellFormed /\ Canonical /\ RootsCanonical /\ Refines /\ CTSound /\ ReclaimAll /\ DeadOnlyWhileCached

=============================================================================
