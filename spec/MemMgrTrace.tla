---------------------------- MODULE MemMgrTrace ----------------------------
(* Validation of recorded request / recycle sequences of the real memory
   managers (harness/memdrive.cc) against MemMgr. *)
EXTENDS MemMgr, Json, IOUtils, TLC

VARIABLES l, style, viol, done
tvars == <<live, l, style, viol, done>>

TraceLog == ndJsonDeserialize(IOEnv.TRACE)
V(k) == [p |-> "C18", l |-> l, k |-> style \o ":" \o k]

ReqViol(ev) ==
    IF ev.ok = 0 THEN {V("request-raised-" \o ev.err)}
    ELSE (IF ev.got >= ev.want THEN {} ELSE {V("chunk-smaller-than-requested")}) \cup
         (IF ev.nz = 1 /\ ev.h # HZero THEN {} ELSE {V("zero-handle-returned")}) \cup
         (IF \A j \in DOMAIN live : Disjoint(ev.h, ev.got, live[j].h, live[j].n) THEN {}
          ELSE {V("chunk-overlaps-a-live-chunk")})

Step ==
    /\ l <= Len(TraceLog) /\ ~done
    /\ LET ev == TraceLog[l] IN
       CASE ev.e \in {"Reset", "MM"} ->
                /\ live' = << >>
                /\ style' = IF ev.e = "MM" THEN ev.style ELSE style
                /\ UNCHANGED viol
         [] ev.e = "MReq" ->
                /\ viol' = viol \cup ReqViol(ev)
                /\ live' = IF ev.ok = 1 /\ ev.nz = 1 /\ ev.got > 0
                           THEN (ev.id :> [h |-> ev.h, n |-> ev.got]) @@ live ELSE live
                /\ UNCHANGED style
         [] ev.e = "MRec" ->
                /\ viol' = viol \cup (IF ev.id \in DOMAIN live THEN {} ELSE {V("recycle-of-a-chunk-that-is-not-live")})
                                \cup (IF ev.intact = 1 THEN {} ELSE {V("contents-of-live-chunk-altered")})
                /\ live' = [j \in DOMAIN live \ {ev.id} |-> live[j]]
                /\ UNCHANGED style
         [] ev.e = "MChk" ->
                /\ viol' = viol \cup (IF Len(ev.bad) = 0 THEN {} ELSE {V("contents-of-live-chunk-altered")})
                                \cup (IF ev.live = Cardinality(DOMAIN live) THEN {} ELSE {V("MODEL-live-count")})
                                \cup (IF NoOverlap THEN {} ELSE {V("live-chunks-overlap")})
                /\ UNCHANGED <<live, style>>
         [] ev.e = "Crash" ->
                /\ viol' = viol \cup {[p |-> "CRASH", l |-> l, k |-> ev.cmd]}
                /\ UNCHANGED <<live, style>>
         [] OTHER -> UNCHANGED <<live, style, viol>>
    /\ l' = l + 1 /\ done' = FALSE

Finish ==
    /\ l = Len(TraceLog) + 1 /\ ~done
    /\ PrintT(<<"RESULT", ToJson([lines |-> Len(TraceLog), viol |-> viol])>>)
    /\ done' = TRUE /\ UNCHANGED <<live, l, style, viol>>

TraceInit == Init /\ l = 1 /\ style = "" /\ viol = {} /\ done = FALSE
TraceSpec == TraceInit /\ [][Step \/ Finish]_tvars
=============================================================================
