------------------------------ MODULE MddApiGen ------------------------------
(***************************************************************************)
(* Transition coverage of the bounded API lifecycle model (spec -> code).  *)
(*                                                                         *)
(* The next-state relation is MddApiMC's, restricted to the calls the      *)
(* driver can issue without itself using a dangling pointer (a construction*)
(* names a live forest and an existing edge slot), and extended with the   *)
(* ghost variable `last`: the driver command that performs the step.  TLC  *)
(* explores the model exhaustively and dumps its state graph; tools/       *)
(* plans.py (api_graph_scripts) turns every transition u -> v into one      *)
(* execution - the commands along a shortest path to u followed by the      *)
(* command of v - which mdrive runs against the real library and            *)
(* MddApiTrace validates step by step (outcome, error code, every held      *)
(* edge).  Every transition of the model, including every error step, is    *)
(* thereby replayed in the implementation.                                  *)
(***************************************************************************)
EXTENDS MddApiMC

VARIABLE last

N(x) == ToString(x)
FArg(f) == IF f = NoForest THEN "-1" ELSE N(f)

GInit == Init /\ last = ""

GNext ==
    \/ Initialize /\ last' = "init"
    \/ Cleanup /\ last' = "cleanup"
    \/ \E d \in DIds : d \notin DOMAIN doms /\ CreateDomain(d, <<2>>) /\ last' = "dom " \o N(d) \o " 1 2"
    \/ \E d \in DIds : DestroyDomain(d) /\ last' = "ddom " \o N(d)
    \/ \E f \in FIds, d \in DIds :
            f \notin DOMAIN fors /\ CreateForest(f, d, FALSE, "B", "MT", "F")
            /\ last' = "for " \o N(f) \o " " \o N(d) \o " S B MT F E OG O V SD"
    \/ \E f \in FIds : DestroyForest(f) /\ last' = "dfor " \o N(f)
    \/ \E s \in SIds, f \in FIds \cup {NoForest} :
            lib /\ s \notin DOMAIN edges /\ NewEdge(s, f) /\ last' = "new " \o N(s) \o " " \o FArg(f)
    \/ \E s, t \in SIds : s \notin DOMAIN edges /\ CopyEdge(s, t) /\ last' = "copy " \o N(s) \o " " \o N(t)
    \/ \E s, t \in SIds : s # t /\ AssignEdge(s, t) /\ last' = "asg " \o N(s) \o " " \o N(t)
    \/ \E s \in SIds : DeleteEdge(s) /\ last' = "del " \o N(s)
    \/ \E s \in SIds, f \in FIds \cup {NoForest} :
            lib /\ AttachEdge(s, f) /\ last' = "attach " \o N(s) \o " " \o FArg(f)
    \/ \E s \in SIds, f \in FIds :
            lib /\ s \in DOMAIN edges /\ LiveForest(f) /\ BuildColl(s, f, "MAX", 0, OneMinterm)
            /\ last' = "coll " \o N(s) \o " " \o N(f) \o " MAX 0 1 1 0"
    \/ \E r, a, b \in SIds :
            lib /\ {r, a, b} \subseteq DOMAIN edges /\ ApplyBinary("UNION", r, a, b)
            /\ last' = "bin UNION " \o N(r) \o " " \o N(a) \o " " \o N(b)

GSpec == GInit /\ [][GNext]_<<vars, last>>

=============================================================================
