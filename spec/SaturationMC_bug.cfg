SPECIFICATION Spec
CONSTANTS
  S = 3
  Rels <- MCRels
  Inits <- MCInits
  MaxCalls = 2
  Key = "AB"
INVARIANT Correct
CHECK_DEADLOCK FALSE
