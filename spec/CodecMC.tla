------------------------------- MODULE CodecMC -------------------------------
(* Exhaustive check of Codec for every word of small widths. *)
EXTENDS Codec, TLC
CONSTANT Widths        \* set of Q = 2^(W-2) values to check
VARIABLE q
Init == q \in Widths
Next == UNCHANGED q
Spec == Init /\ [][Next]_q
AllHold ==
    /\ IntRoundTrip(q) /\ IntInjective(q) /\ IntZeroUnique(q) /\ IntHandlesAreTerminals(q)
    /\ RealRoundTrip(q) /\ RealInjective(q) /\ RealZeroHandle(q) /\ RealHandlesAreTerminals(q)
    /\ OnlyZeroDecodesToZero(q)
=============================================================================
