------------------------------- MODULE MddNodes -------------------------------
(***************************************************************************)
(* Store-level vocabulary of the MEDDLY specification: what a set of       *)
(* stored nodes must look like under a forest's reduction rule, what an    *)
(* edge into it denotes, and how counts relate to references.  Pure        *)
(* operators over a node table; used both by the store state machine       *)
(* (MddStore, model-checked) and by the snapshot validator                 *)
(* (MddStoreTrace, evaluated on node snapshots taken from the real         *)
(* library).                                                               *)
(*                                                                         *)
(* A node table N maps a node handle h > 0 to                              *)
(*     [l |-> level, sz |-> size of the level,                             *)
(*      c |-> sequence of non-transparent children <<i, d, ev, tv>>        *)
(*            in increasing index order:                                   *)
(*            i index, d child handle (<= 0: terminal), ev edge value,     *)
(*            tv value of the terminal (multi-terminal forests, d <= 0)]   *)
(* Levels: sets K..1; relations K, -K, K-1, -(K-1), .., 1, -1 (a primed    *)
(* level -k sits just below the unprimed level k).  Pos(l) is the position *)
(* of level l in that order = the digit position of MddFun.                *)
(*                                                                         *)
(* kind = [rel, lab, rule]:  lab in {"MT","EP","IX","ET"}, rule in         *)
(* {"F","Q","I"}.  Edge values: EP/IX additive (transparent: child 0 =     *)
(* +infinity), ET multiplicative (transparent: child 0, value 0).          *)
(***************************************************************************)
EXTENDS MddFun

Pos(l) == IF l > 0 THEN (2 * l) ELSE IF l < 0 THEN (-2 * l) - 1 ELSE 0
\* for sets only unprimed levels exist; position = level
PosOf(kind, l) == IF kind.rel THEN Pos(l) ELSE l

Children(n) == n.c
ChildAt(n, i) ==
    LET S == {x \in 1..Len(n.c) : n.c[x][1] = i}
    IN IF S = {} THEN << >> ELSE n.c[CHOOSE x \in S : TRUE]

IsNode(d) == d > 0

-----------------------------------------------------------------------------
(* C02: shape of every stored node *)

\* children are live nodes strictly below their parent, in index order, inside the level
ChildrenOK(N, kind, h) ==
    LET n == N[h] IN
    /\ \A x \in 1..Len(n.c) :
          /\ n.c[x][1] >= 0 /\ n.c[x][1] < n.sz
          /\ x > 1 => n.c[x-1][1] < n.c[x][1]
          /\ IsNode(n.c[x][2]) =>
                /\ n.c[x][2] \in DOMAIN N
                /\ PosOf(kind, N[n.c[x][2]].l) < PosOf(kind, n.l)

\* a node that is entirely transparent is never stored
NotAllTransparent(N, h) == Len(N[h].c) > 0

\* same content at the same level => same node
\* (a recorded edge value OffGrid stands for some real off the dyadic grid:
\* two such nodes may well differ)
HasOffEv(n) == \E x \in 1..Len(n.c) : n.c[x][3] = OffGrid \/ n.c[x][4] = OffGrid
NoDuplicate(N, h) ==
    HasOffEv(N[h]) \/ \A g \in DOMAIN N : (g # h /\ N[g].l = N[h].l) => N[g].c # N[h].c

\* all sz children present and identical (a "redundant" node)
Redundant(n) ==
    /\ Len(n.c) = n.sz
    /\ \A x \in 2..Len(n.c) : n.c[x][2] = n.c[1][2] /\ n.c[x][3] = n.c[1][3] /\ n.c[x][4] = n.c[1][4]

\* is level l a level where the rule eliminates redundant nodes?
EliminatesRedundant(kind, l) ==
    \/ kind.rule = "F"
    \/ kind.rule = "I" /\ l > 0

NoForbiddenRedundant(N, kind, h) == EliminatesRedundant(kind, N[h].l) => ~Redundant(N[h])

\* quasi-reduced: a child is at the very next level (or a terminal at the bottom)
NextPos(kind, l) == PosOf(kind, l) - 1
NoSkip(N, kind, h) ==
    kind.rule = "Q" =>
        \A x \in 1..Len(N[h].c) :
            LET d == N[h].c[x][2] IN
            IF IsNode(d) THEN PosOf(kind, N[d].l) = NextPos(kind, N[h].l)
            ELSE NextPos(kind, N[h].l) = 0

\* identity-reduced relations: an unprimed node's child i is never a primed
\* node whose only non-transparent child is index i (that edge must skip it)
Singleton(n) == IF Len(n.c) = 1 THEN n.c[1][1] ELSE -1
NoIllegalSingleton(N, kind, h) ==
    (kind.rule = "I" /\ N[h].l > 0) =>
        \A x \in 1..Len(N[h].c) :
            LET d == N[h].c[x][2] IN
            (IsNode(d) /\ N[d].l = -(N[h].l)) => Singleton(N[d]) # N[h].c[x][1]

\* edge values are normalised: EV+ smallest child value 0; EV* first child value 1 (= 64/64)
Normalised(N, kind, h) ==
    CASE kind.lab \in {"EP", "IX"} -> \E x \in 1..Len(N[h].c) : N[h].c[x][3] = 0 /\ \A y \in 1..Len(N[h].c) : N[h].c[y][3] >= 0
      [] kind.lab = "ET" -> N[h].c[1][3] = RealOne \/ N[h].c[1][3] = OffGrid
      [] OTHER -> TRUE

WellFormedNode(N, kind, h) ==
    /\ ChildrenOK(N, kind, h)
    /\ NotAllTransparent(N, h)
    /\ NoDuplicate(N, h)
    /\ NoForbiddenRedundant(N, kind, h)
    /\ NoSkip(N, kind, h)
    /\ NoIllegalSingleton(N, kind, h)
    /\ Normalised(N, kind, h)

\* no two nodes with the same level and content, decided for the whole table at once
DuplicateFree(N) ==
    LET G == {h \in DOMAIN N : ~HasOffEv(N[h])}
    IN Cardinality({<<N[h].l, N[h].c>> : h \in G}) = Cardinality(G)

\* names of the clauses a node breaks (for reporting); dupfree: DuplicateFree(N)
Broken(N, kind, h, dupfree) ==
    (IF ChildrenOK(N, kind, h) THEN {} ELSE {"children-not-live-or-not-below"}) \cup
    (IF NotAllTransparent(N, h) THEN {} ELSE {"all-transparent-node"}) \cup
    (IF dupfree \/ NoDuplicate(N, h) THEN {} ELSE {"duplicate-node"}) \cup
    (IF ~ChildrenOK(N, kind, h) \/ NoForbiddenRedundant(N, kind, h) THEN {} ELSE {"redundant-node"}) \cup
    (IF ~ChildrenOK(N, kind, h) \/ NoSkip(N, kind, h) THEN {} ELSE {"quasi-reduced-skips-level"}) \cup
    (IF ~ChildrenOK(N, kind, h) \/ NoIllegalSingleton(N, kind, h) THEN {} ELSE {"illegal-singleton-edge"}) \cup
    (IF ~NotAllTransparent(N, h) \/ Normalised(N, kind, h) THEN {} ELSE {"edge-values-not-normalised"})

-----------------------------------------------------------------------------
(* C06: exact incoming counts *)

\* all child pointers <<parent, slot, child>> of a node table
PtrSet(N) == UNION {{<<g, x, N[g].c[x][2]>> : x \in 1..Len(N[g].c)} : g \in DOMAIN N}
\* number of parent slots pointing to h
RefsIn(P, h) == Cardinality({t \in P : t[3] = h})
ParentRefs(N, h) == RefsIn(PtrSet(N), h)

\* occurrences of h in a sequence of handles
Occurs(seq, h) == Cardinality({x \in 1..Len(seq) : seq[x] = h})

-----------------------------------------------------------------------------
(* Denotation: the function an edge <<ev, d>> entering at position p       *)
(* denotes, as a table over positions 1..p (MddFun conventions).  `inn` is *)
(* the digit chosen at position p+1 (needed when p is a primed position of *)
(* an identity-reduced relation and the level is skipped); -1 if none.     *)
(***************************************************************************)
TransparentV(kind) == IF kind.lab \in {"EP", "IX"} THEN Inf ELSE 0

\* combine an edge value with the value below it
Combine(kind, ev, v) ==
    CASE kind.lab \in {"EP", "IX"} -> IF v = Inf THEN Inf
                                        ELSE IF Bad(v) \/ Bad(ev) THEN OffGrid     \* a value the encoding cannot carry
                                        ELSE Guard(ev + v, FALSE)
      [] kind.lab = "ET" -> IF Bad(v) \/ Bad(ev) THEN OffGrid ELSE ScMult("T", ev, v)
      [] OTHER -> v

\* value of a terminal child <<i, d, ev, tv>>
TermValue(kind, ch) ==
    CASE kind.lab \in {"EP", "IX"} -> IF ch[2] = 0 THEN Inf ELSE ch[3]
      [] kind.lab = "ET" -> IF ch[2] = 0 THEN 0 ELSE ch[3]
      [] OTHER -> ch[4]

\* value carried by a pointer to a terminal (before edge values are combined)
TermOf(kind, ch) ==
    CASE kind.lab = "MT" -> ch[4]
      [] kind.lab = "ET" -> IF ch[2] = 0 THEN 0 ELSE RealOne
      [] OTHER -> IF ch[2] = 0 THEN Inf ELSE 0

IsTransparentPtr(kind, d, tvl) ==
    ~IsNode(d) /\ (IF kind.lab = "MT" THEN tvl = 0 ELSE d = 0)

\* Den(N, kind, ds, p, d, tvl, inn): table over positions 1..p of the function
\* denoted by pointer d (terminal value tvl if d <= 0) entering at position p;
\* inn = digit chosen at position p+1 (-1: none).
RECURSIVE Den(_, _, _, _, _, _, _)
Den(N, kind, ds, p, d, tvl, inn) ==
    LET np    == ProdUpTo(ds, p)
        below == ProdUpTo(ds, p-1)
        tr    == TransparentV(kind)
    IN
    IF p = 0 THEN << tvl >>
    ELSE IF IsTransparentPtr(kind, d, tvl) THEN [i \in 1..np |-> tr]
    ELSE
    LET lp == IF IsNode(d) THEN PosOf(kind, N[d].l) ELSE 0 IN
    IF lp = p
    THEN \* a node at this position: one sub-table per index
         LET n == N[d]
             subOf(j) ==
                 LET ch == ChildAt(n, j) IN
                 IF ch = << >> THEN [i \in 1..below |-> tr]
                 ELSE LET raw == Den(N, kind, ds, p-1, ch[2], TermOf(kind, ch), j)
                      IN [i \in 1..below |-> Combine(kind, ch[3], raw[i])]
             subs == [j \in 0..(ds[p]-1) |-> subOf(j)]
         IN [i \in 1..np |-> subs[(i-1) \div below][((i-1) % below) + 1]]
    ELSE IF kind.rel /\ kind.rule = "I" /\ (p % 2 = 1)
    THEN \* skipped primed level of an identity-reduced relation: x' = x
         LET sub == Den(N, kind, ds, p-1, d, tvl, -1)
         IN [i \in 1..np |-> IF ((i-1) \div below) = inn THEN sub[((i-1) % below) + 1] ELSE tr]
    ELSE \* skipped level that stands for a redundant node: every index, same child
         \* (the index is passed down: the level below may be a skipped identity level)
         LET subs == [j \in 0..(ds[p]-1) |-> Den(N, kind, ds, p-1, d, tvl, j)]
         IN [i \in 1..np |-> subs[(i-1) \div below][((i-1) % below) + 1]]

\* the function denoted by a root edge <<ev, d>> (tv: terminal value for MT roots)
DenoteRoot(N, kind, ds, d, ev, tv) ==
    LET tvl == IF IsNode(d) THEN 0 ELSE TermOf(kind, <<0, d, ev, tv>>)
        raw == Den(N, kind, ds, Len(ds), d, tvl, -1)
    IN [i \in 1..Len(raw) |-> Combine(kind, ev, raw[i])]

-----------------------------------------------------------------------------
(* Reachable sub-graph: node and edge counts of an edge (C11) *)

RECURSIVE ReachFrom(_, _)
ReachFrom(N, S) ==
    LET next == S \cup UNION { {N[h].c[x][2] : x \in {y \in 1..Len(N[h].c) : IsNode(N[h].c[y][2])}} : h \in S }
    IN IF next = S THEN S ELSE ReachFrom(N, next)

ReachableNodes(N, d) == IF IsNode(d) /\ d \in DOMAIN N THEN ReachFrom(N, {d}) ELSE {}

\* SUM over x in S of n(x), for natural n(x)
SumOverSet(S, n(_)) == Cardinality(UNION {{<<x, i>> : i \in 1..n(x)} : x \in S})

=============================================================================
