SPECIFICATION Spec
CONSTANTS
  H = 3
  K = 2
  S = 2
  Rule = "F"
  Pess = FALSE
  NSlots = 2
  MaxCT = 1
  Bug = "none"
INVARIANT Inv
PROPERTY HitNeverDead
