SPECIFICATION Spec
CONSTANTS
  VSizes <- VS32
  H = 10
  NR = 2
  Rule = "F"
  MaxSwaps = 2
  Bug = "none"
INVARIANT Inv
CHECK_DEADLOCK FALSE
