---------------------------- MODULE SaturationMC ----------------------------
(* Instance: variables of size 3; the relations are all unions of four event
   generators - one event whose top level is 2, two competing moves of x1
   that do not depend on x2 (so they end up in the common diagonal), and one
   more top-level event; the initial sets are the singletons. *)
EXTENDS Saturation

G1 == { << <<0, 0>>, <<1, 1>> >> }
G2 == { << <<i, 1>>, <<i, 2>> >> : i \in 0..2 }
G3 == { << <<i, 1>>, <<i, 0>> >> : i \in 0..2 }
G4 == { << <<1, 2>>, <<2, 2>> >> }
Gens == {G1, G2, G3, G4}
MCRels == {UNION T : T \in (SUBSET Gens) \ {{}}}
MCInits == {{s} : s \in (0..2) \X (0..2)}
=============================================================================
