SPECIFICATION MCSpec
CONSTANTS
  ND = 2
  NF = 3
  NS = 3
INVARIANT Inv
PROPERTY ErrorAtomic
PROPERTY FidMonotone
PROPERTY FidNeverReused
PROPERTY OtherDomainsUntouched
