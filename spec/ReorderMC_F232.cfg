SPECIFICATION Spec
CONSTANTS
  VSizes <- VS232
  H = 16
  NR = 1
  Rule = "F"
  MaxSwaps = 3
  Bug = "none"
INVARIANT Inv
CHECK_DEADLOCK FALSE
