SPECIFICATION Spec
CONSTANTS
  VSizes <- VS23
  H = 14
  NR = 2
  Rule = "F"
  MaxSwaps = 2
  Bug = "no_unique"
INVARIANT Inv
CHECK_DEADLOCK FALSE
