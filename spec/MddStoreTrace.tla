--------------------------- MODULE MddStoreTrace ---------------------------
(***************************************************************************)
(* Store-level trace validation.  The same NDJSON traces that              *)
(* MddApiTrace validates at the API level carry                            *)
(*   - Snap events: every live node of a forest as seen through the public *)
(*     node-inspection interface (three unpackings, hashes, unique-table   *)
(*     look-ups), counts, the root-edge registry and cache counts through  *)
(*     the MEDDLY_VERIF accessors, and every edge the user holds;          *)
(*   - lifecycle events from the MEDDLY_VERIF observer: NewNode, DelNode,  *)
(*     Recycle, CTAdd, CTHit, CTDel.                                       *)
(* Snapshots are judged with the predicates of MddNodes (the ones MddStore *)
(* is model-checked against); lifecycle events are the store actions       *)
(*   NewNode = MkNode's allocation      DelNode = DeleteNode               *)
(*   Recycle = RecycleHandle            CTAdd/CTHit/CTDel = AddEntry /     *)
(*   a hit in OrRec / RemoveEntry                                          *)
(* and must be enabled in the state the specification has reached:         *)
(* a handle is allocated only when free and unmentioned by the cache, a    *)
(* hit only returns an entry whose nodes are all live *in the generation   *)
(* they had when the entry was added*.                                     *)
(***************************************************************************)
EXTENDS MddNodes, Json, IOUtils

VARIABLES
    l,          \* next trace line
    doms,       \* d |-> sizes by variable
    fk,         \* forest index |-> [d, rel, lab, rng, rule, fid, del]
    life,       \* TRUE: lifecycle events are being recorded in this execution
    status,     \* <<fid, h>> |-> "active" | "dead"   (absent: free)
    gen,        \* <<fid, h>> |-> number of times the handle was allocated
    ctb,        \* live compute-table entries: set of [ct, id, et, n]
    viol,
    done

svars == <<l, doms, fk, life, status, gen, ctb, viol, done>>

TraceLog == ndJsonDeserialize(IOEnv.TRACE)

Has(r, k) == k \in DOMAIN r
V(p, k) == [p |-> p, l |-> l, k |-> k]

EntryId(ev) == <<ev.ct, ev.id0, ev.id1, ev.id2>>

StatusOf(f, h) == IF <<f, h>> \in DOMAIN status THEN status[<<f, h>>] ELSE "free"
GenOf(f, h) == IF <<f, h>> \in DOMAIN gen THEN gen[<<f, h>>] ELSE 0

\* node-typed slots of an entry: <<fid, h>> with h > 0
NodeSlots(ev) == {x \in 1..Len(ev.n) : ev.n[x][2] > 0 /\ ev.n[x][1] > 0}

CacheRefsTo(f, h) ==
    SumOverSet(ctb, LAMBDA e : Cardinality({x \in 1..Len(e.n) : e.n[x][1] = f /\ e.n[x][2] = h}))

-----------------------------------------------------------------------------
(* Snapshots *)

KindOfF(F) == [rel |-> F.rel, lab |-> F.lab, rule |-> F.rule]

\* node table of a snapshot
TableOf(ev) ==
    LET idx == {x \in 1..Len(ev.nodes) : TRUE}
        hs  == {ev.nodes[x].h : x \in idx}
        at(h) == ev.nodes[CHOOSE x \in idx : ev.nodes[x].h = h]
    IN [h \in hs |-> LET r == at(h) IN [l |-> r.l, sz |-> r.sz, c |-> r.c]]

SnapViol(ev) ==
    LET F    == fk[ev.f]
        kind == KindOfF(F)
        N    == TableOf(ev)
        idx  == 1..Len(ev.nodes)
        P    == PtrSet(N)
        sizesByLevel == [k \in 1..Len(ev.l2v) |-> doms[F.d][ev.l2v[k]]]
        ds   == DS(sizesByLevel, F.rel)
        pess == F.del = "P"
        \* ---- C02 ----
        dupfree == DuplicateFree(N)
        \* named deviation (known_findings.json): after a reordering, a quasi-reduced
        \* *relation* forest can hold a node whose child lies more than one level below
        reordered == F.ro \/ ev.l2v # [k \in 1..Len(ev.l2v) |-> k]
        nameOf(b) == IF b = "quasi-reduced-skips-level" /\ kind.rel /\ kind.rule = "Q" /\ reordered
                     THEN "KF:REORDER:quasi-reduced-relation:level-skipped-after-swap" ELSE b
        shape == UNION { {V("C02", nameOf(b)) : b \in Broken(N, kind, ev.nodes[x].h, dupfree)} : x \in idx }
        views == UNION { (IF ev.nodes[x].sv = 1 THEN {} ELSE {V("C02", "full-and-sparse-views-disagree")}) \cup
                         (IF ev.nodes[x].hv = 1 THEN {} ELSE {V("C02", "hash-differs-between-views"), V("C01", "hash-differs-between-views")}) \cup
                         (IF ev.nodes[x].ff = 1 /\ ev.nodes[x].fs = 1 THEN {} ELSE {V("C02", "unique-table-does-not-find-node"), V("C01", "unique-table-does-not-find-node")}) \cup
                         (IF ev.nodes[x].sg = Singleton(N[ev.nodes[x].h]) THEN {} ELSE {V("C02", "singleton-query-disagrees")})
                         : x \in idx }
        counts == (IF ev.active = Len(ev.nodes) /\ ev.nn = ev.active THEN {} ELSE {V("C02", "node-count-differs-from-live-nodes")}) \cup
                  (IF ev.utsum = ev.active THEN {} ELSE {V("C02", "unique-table-size-differs-from-live-nodes"), V("C01", "unique-table-size-differs-from-live-nodes")})
        \* ---- C06 ----
        refs == UNION { LET h == ev.nodes[x].h IN
                        IF ev.nodes[x].inc = RefsIn(P, h) + Occurs(ev.roots, h) + ev.nodes[x].bl THEN {}
                        ELSE {V("C06", "incoming-count-differs-from-references")} : x \in idx }
        dangling == IF \A x \in idx : ChildrenOK(N, kind, ev.nodes[x].h) THEN {} ELSE {V("C06", "live-node-points-to-reclaimed-or-higher-node")}
        rootsLive == IF \A x \in 1..Len(ev.roots) : ev.roots[x] > 0 => ev.roots[x] \in DOMAIN N THEN {}
                     ELSE {V("C06", "held-edge-points-to-reclaimed-node")}
        noRoots == /\ \A x \in 1..Len(ev.roots) : ev.roots[x] <= 0
                   /\ \A x \in idx : ev.nodes[x].bl = 0
        noCache == /\ \A x \in idx : ev.nodes[x].cc = 0
                   /\ Len(ev.zomb) = 0
        reclaim == IF noRoots /\ (pess \/ noCache) /\ Len(ev.nodes) > 0 THEN {V("C06", "nodes-remain-with-no-reference")} ELSE {}
        lifeSet == IF life /\ {ev.nodes[x].h : x \in idx} # {h \in 1..ev.last : StatusOf(ev.fid, h) = "active"}
                   THEN {V("C06", "live-nodes-differ-from-lifecycle-events")} ELSE {}
        \* ---- C07 ----
        cache == UNION { (IF ev.nodes[x].cc = ev.nodes[x].ctc THEN {} ELSE {V("C07", "cache-count-differs-from-table-entries")}) \cup
                         (IF life /\ ev.nodes[x].cc # CacheRefsTo(ev.fid, ev.nodes[x].h)
                          THEN {V("C07", "cache-count-differs-from-recorded-entries")} ELSE {})
                         : x \in idx } \cup
                 UNION { (IF ev.zomb[x][2] = ev.zomb[x][3] THEN {} ELSE {V("C07", "cache-count-differs-from-table-entries")}) \cup
                         (IF life /\ ev.zomb[x][2] # CacheRefsTo(ev.fid, ev.zomb[x][1])
                          THEN {V("C07", "cache-count-differs-from-recorded-entries")} ELSE {})
                         : x \in 1..Len(ev.zomb) }
        \* ---- held edges: C01, C02/C03 (evaluation = denotation), C11 (counts) ----
        E  == ev.edges
        ok(x) == Has(E[x], "fn") /\ \A i \in 1..Len(E[x].fn) : E[x].fn[i] # OffGrid
        hasfn(x) == Has(E[x], "fn") /\ Has(E[x], "fh")
        samefn(x, y) == IF ok(x) /\ ok(y) THEN E[x].fn = E[y].fn ELSE E[x].fh = E[y].fh
        \* (an edge value recorded as OffGrid cannot serve as identity)
        idok(x) == E[x].ev # OffGrid /\ E[x].tv # OffGrid
        canon == IF \E x, y \in 1..Len(E) : x < y /\ hasfn(x) /\ hasfn(y) /\ idok(x) /\ idok(y)
                        /\ ((E[x].n = E[y].n /\ E[x].ev = E[y].ev /\ E[x].tv = E[y].tv) # samefn(x, y))
                 THEN {V("C01", "identity-vs-function")} ELSE {}
        den(x) == DenoteRoot(N, kind, ds, E[x].n, E[x].ev, E[x].tv)
        rootok(x) == E[x].n <= 0 \/ E[x].n \in DOMAIN N
        denote == UNION { IF ~Has(E[x], "fn") \/ ~rootok(x) THEN {}
                          ELSE LET dd == den(x) IN
                               IF \A i \in 1..Len(dd) : dd[i] = E[x].fn[i] \/ Bad(dd[i]) \/ Bad(E[x].fn[i]) THEN {}
                               ELSE {V("C02", "evaluation-differs-from-node-denotation"), V("C03", "evaluation-differs-from-node-denotation")}
                          : x \in 1..Len(E) }
        cnt == UNION { IF ~Has(E[x], "nc") \/ ~rootok(x) THEN {}
                       ELSE LET R == ReachableNodes(N, E[x].n) IN
                            (IF E[x].nc = Cardinality(R) THEN {} ELSE {V("C11", "node-count")}) \cup
                            (IF E[x].ec = SumOverSet(R, LAMBDA h : Len(N[h].c)) THEN {} ELSE {V("C11", "edge-count")}) \cup
                            (IF E[x].ecz = SumOverSet(R, LAMBDA h : N[h].sz) THEN {} ELSE {V("C11", "edge-count-with-zeroes")})
                       : x \in 1..Len(E) }
    IN shape \cup views \cup counts \cup refs \cup dangling \cup rootsLive \cup reclaim \cup lifeSet \cup cache \cup canon \cup denote \cup cnt

-----------------------------------------------------------------------------
(* Events *)

Same(S) == UNCHANGED S

DropForest(fid) ==
    /\ status' = [k \in {x \in DOMAIN status : x[1] # fid} |-> status[k]]
    /\ ctb' = {e \in ctb : \A x \in 1..Len(e.n) : e.n[x][1] # fid}

Step ==
    /\ l <= Len(TraceLog)
    /\ ~done
    /\ LET ev == TraceLog[l] IN
       CASE ev.e = "Reset" ->
                /\ doms' = << >> /\ fk' = << >> /\ life' = FALSE
                /\ status' = << >> /\ gen' = << >> /\ ctb' = {}
                /\ Same(<<viol>>)
         [] ev.e = "Init" ->
                /\ life' = (ev.ok = 1 /\ Has(ev, "life") /\ ev.life = 1)
                /\ status' = << >> /\ gen' = << >> /\ ctb' = {}
                /\ Same(<<doms, fk, viol>>)
         [] ev.e = "Cleanup" ->
                /\ status' = << >> /\ ctb' = {}
                /\ Same(<<doms, fk, life, gen, viol>>)
         [] ev.e = "Dom" ->
                /\ doms' = IF ev.ok = 1 THEN (ev.d :> ev.sizes) @@ doms ELSE doms
                /\ Same(<<fk, life, status, gen, ctb, viol>>)
         [] ev.e \in {"For", "ReadNew"} ->
                /\ fk' = IF ev.ok = 1
                         THEN ((IF ev.e = "For" THEN ev.f ELSE ev.fnew) :>
                                 [d |-> ev.d, rel |-> ev.rel = 1, lab |-> ev.lab, rng |-> ev.rng, rule |-> ev.rule,
                                  fid |-> ev.fid, del |-> IF Has(ev, "del") THEN ev.del ELSE "O",
                                  ro |-> FALSE]) @@ fk        \* ro: reordered at least once
                         ELSE fk
                /\ Same(<<doms, life, status, gen, ctb, viol>>)
         [] ev.e = "Reorder" ->
                /\ fk' = IF ev.f \in DOMAIN fk THEN [fk EXCEPT ![ev.f].ro = TRUE] ELSE fk
                /\ Same(<<doms, life, status, gen, ctb, viol>>)
         [] ev.e = "DFor" ->
                /\ IF ev.ok = 1 /\ ev.f \in DOMAIN fk THEN DropForest(fk[ev.f].fid) ELSE Same(<<status, ctb>>)
                /\ Same(<<doms, fk, life, gen, viol>>)
         [] ev.e = "DDom" ->
                /\ IF ev.ok = 1
                   THEN LET fids == {fk[f].fid : f \in {g \in DOMAIN fk : fk[g].d = ev.d}} IN
                        /\ status' = [k \in {x \in DOMAIN status : x[1] \notin fids} |-> status[k]]
                        /\ ctb' = {e \in ctb : \A x \in 1..Len(e.n) : e.n[x][1] \notin fids}
                   ELSE Same(<<status, ctb>>)
                /\ Same(<<doms, fk, life, gen, viol>>)
         [] ev.e = "NewNode" ->
                /\ viol' = viol \cup
                     (IF StatusOf(ev.f, ev.h) # "free" THEN {V("C06", "handle-allocated-while-still-in-use")} ELSE {}) \cup
                     (IF CacheRefsTo(ev.f, ev.h) > 0 THEN {V("C06", "handle-allocated-while-cache-entries-mention-it"),
                                                          V("C07", "handle-allocated-while-cache-entries-mention-it")} ELSE {})
                /\ status' = (<<ev.f, ev.h>> :> "active") @@ status
                /\ gen' = (<<ev.f, ev.h>> :> GenOf(ev.f, ev.h) + 1) @@ gen
                /\ Same(<<doms, fk, life, ctb>>)
         [] ev.e = "DelNode" ->
                /\ viol' = viol \cup (IF StatusOf(ev.f, ev.h) # "active" THEN {V("C06", "deleted-node-was-not-live")} ELSE {})
                /\ status' = (<<ev.f, ev.h>> :> "dead") @@ status
                /\ Same(<<doms, fk, life, gen, ctb>>)
         [] ev.e = "Recycle" ->
                /\ viol' = viol \cup
                     (IF StatusOf(ev.f, ev.h) = "active" THEN {V("C06", "handle-recycled-while-node-live")} ELSE {}) \cup
                     (IF CacheRefsTo(ev.f, ev.h) > 0 THEN {V("C06", "handle-recycled-while-cache-entries-mention-it"),
                                                          V("C07", "handle-recycled-while-cache-entries-mention-it")} ELSE {})
                /\ status' = [k \in DOMAIN status \ {<<ev.f, ev.h>>} |-> status[k]]
                /\ Same(<<doms, fk, life, gen, ctb>>)
         [] ev.e = "CTAdd" ->
                /\ ctb' = {e \in ctb : e.id # EntryId(ev)} \cup
                          {[id |-> EntryId(ev), et |-> ev.et,
                            n |-> [x \in 1..Len(ev.n) |-> <<ev.n[x][1], ev.n[x][2], GenOf(ev.n[x][1], ev.n[x][2])>>]]}
                /\ viol' = viol \cup
                     (IF \E x \in NodeSlots(ev) : StatusOf(ev.n[x][1], ev.n[x][2]) # "active"
                      THEN {V("C07", "entry-added-that-mentions-a-reclaimed-node")} ELSE {})
                /\ Same(<<doms, fk, life, status, gen>>)
         [] ev.e = "CTHit" ->
                /\ viol' = viol \cup
                     (LET es == {e \in ctb : e.id = EntryId(ev)} IN
                      IF es = {} THEN {V("C07", "hit-on-an-entry-that-was-never-added-or-already-deleted")}
                      ELSE LET e == CHOOSE z \in es : TRUE IN
                           IF \E x \in 1..Len(e.n) : e.n[x][2] > 0 /\ e.n[x][1] > 0 /\
                                  (StatusOf(e.n[x][1], e.n[x][2]) # "active" \/ GenOf(e.n[x][1], e.n[x][2]) # e.n[x][3])
                           THEN {V("C07", "hit-returns-entry-that-mentions-a-reclaimed-node")}
                           ELSE IF [x \in 1..Len(ev.n) |-> <<ev.n[x][1], ev.n[x][2]>>] # [x \in 1..Len(e.n) |-> <<e.n[x][1], e.n[x][2]>>]
                           THEN {V("C07", "entry-changed-between-add-and-hit")} ELSE {})
                /\ Same(<<doms, fk, life, status, gen, ctb>>)
         [] ev.e = "CTDel" ->
                /\ ctb' = {e \in ctb : e.id # EntryId(ev)}
                /\ Same(<<doms, fk, life, status, gen, viol>>)
         [] ev.e = "Snap" ->
                /\ viol' = viol \cup SnapViol(ev)
                /\ Same(<<doms, fk, life, status, gen, ctb>>)
         [] OTHER -> Same(<<doms, fk, life, status, gen, ctb, viol>>)
    /\ l' = l + 1
    /\ done' = FALSE

Finish ==
    /\ l = Len(TraceLog) + 1
    /\ ~done
    /\ PrintT(<<"RESULT", ToJson([lines |-> Len(TraceLog), viol |-> viol])>>)
    /\ done' = TRUE
    /\ Same(<<l, doms, fk, life, status, gen, ctb, viol>>)

TraceInit ==
    /\ l = 1 /\ doms = << >> /\ fk = << >> /\ life = FALSE
    /\ status = << >> /\ gen = << >> /\ ctb = {} /\ viol = {} /\ done = FALSE

TraceNext == Step \/ Finish

TraceSpec == TraceInit /\ [][TraceNext]_svars

=============================================================================
