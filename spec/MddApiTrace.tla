---------------------------- MODULE MddApiTrace ----------------------------
(***************************************************************************)
(* Trace validation of recorded executions of the real library against     *)
(* MddApi.  Each NDJSON line is one event; each event is explained by the  *)
(* corresponding MddApi action (same outcome operators).  Checks are       *)
(* *soft*: a recorded result that differs from the specification's adds a  *)
(* tagged record to viol and the observed state is adopted, so the rest of *)
(* the execution is still checked against what the library really holds.   *)
(***************************************************************************)
EXTENDS MddApi, Json, IOUtils

VARIABLES
    l,          \* next trace line
    ids,        \* slot |-> observed identity (node handle, edge value words)
    viol,       \* set of [p, l, k]: property tag, line, kind
    known,      \* keys of known-deviation actions taken
    done

tvars == <<vars, l, ids, viol, known, done>>

TraceLog == ndJsonDeserialize(IOEnv.TRACE)

Has(r, k) == k \in DOMAIN r

V(p, k) == [p |-> p, l |-> l, k |-> k]

-----------------------------------------------------------------------------
FnEq(a, b) ==
    /\ Len(a) = Len(b)
    /\ \A i \in 1..Len(a) : a[i] = b[i] \/ a[i] = OffGrid \/ b[i] = OffGrid

HasOff(a) == \E i \in 1..Len(a) : a[i] = OffGrid

\* compare the specification's outcome with the recorded one
OutcomeViol(out, ev, p) ==
    IF out.err = "unmodelled" THEN {}
    ELSE IF out.ok
    THEN IF ev.ok = 1
         THEN IF ~Has(ev.res, "fn") THEN {V(p, "result-cannot-be-evaluated-" \o ev.res.oerr)}
              ELSE IF FnEq(out.fn, ev.res.fn) THEN {}
              ELSE {V(p, "wrong-function")}
         ELSE {V(p, "unexpected-error-" \o ev.err)}
    ELSE IF ev.ok = 1 THEN {V("C16", "no-error-raised-expected-" \o out.err)}
         ELSE IF out.err = "ANY" \/ out.err = ev.err THEN {}
              ELSE {V("C16", "wrong-error-code-" \o ev.err \o "-expected-" \o out.err)}

\* adopt what the library reports for slot s
\* (a result the library cannot even evaluate - "oerr" - is adopted as a table
\* of unknown values, so that later comparisons skip it)
Observed(res) ==
    IF res.f < 0 THEN DetachedEdge
    ELSE IF Has(res, "fn") THEN [f |-> res.f, fn |-> res.fn]
    ELSE [f |-> res.f, fn |-> [i \in 1..NPts(fors[res.f]) |-> OffGrid]]

AdoptEdge(s, res) == (s :> Observed(res)) @@ edges
AdoptId(s, res)   == (s :> (IF Has(res, "id") THEN res.id ELSE << >>)) @@ ids

\* C01: within one forest, equal identity <=> equal function, for the new
\* result against every other held edge
CanonViol(s, res) ==
    IF res.f < 0 \/ ~Has(res, "id") \/ ~Has(res, "fn") THEN {}
    ELSE IF HasOff(res.fn) THEN {}
    ELSE LET others == {t \in DOMAIN edges \ {s} :
                            /\ edges[t].f = res.f
                            /\ t \in DOMAIN ids /\ ids[t] # << >>
                            /\ ~HasOff(edges[t].fn)}
             bad == {t \in others : (ids[t] = res.id) # (edges[t].fn = res.fn)}
         IN IF bad = {} THEN {} ELSE {V("C01", "identity-vs-function")}

PropOfBin(op) ==
    CASE op \in {"UNION", "INTERSECTION", "DIFFERENCE", "CROSS"} -> "C04"
      [] op \in {"PRE_IMAGE", "POST_IMAGE", "VM_MULTIPLY", "MV_MULTIPLY"} -> "C09"
      [] op \in {"REACH_FS_F", "REACH_FS_B", "REACH_NOFS_F", "REACH_NOFS_B",
                 "REACH_SAT_F", "REACH_SAT_B"} -> "C08"
      [] OTHER -> "C05"

PropOfUn(op) ==
    CASE op = "COMPLEMENT" -> "C04"
      [] op = "COPY" -> "C10"
      [] op = "TOINDEX" -> "C15"
      [] OTHER -> "C05"

-----------------------------------------------------------------------------
(* Events *)

Same(S) == UNCHANGED S

DoReset(ev) ==
    /\ lib' = FALSE /\ doms' = << >> /\ fors' = << >> /\ edges' = << >>
    /\ nextFid' = 1 /\ err' = "ok" /\ ids' = << >>
    /\ Same(<<viol, known>>)

DoInit(ev) ==
    /\ lib' = (ev.ok = 1 \/ lib)
    /\ nextFid' = IF ev.ok = 1 THEN 1 ELSE nextFid
    /\ err' = IF ev.ok = 1 THEN "ok" ELSE ev.err
    /\ viol' = viol \cup
         (IF lib /\ ev.ok = 1 THEN {V("C17", "double-initialize-accepted")}
          ELSE IF ~lib /\ ev.ok = 0 THEN {V("C17", "initialize-failed-" \o ev.err)}
          ELSE {})
    /\ Same(<<doms, fors, edges, ids, known>>)

DoCleanup(ev) ==
    /\ IF ev.ok = 1
       THEN /\ lib' = FALSE
            /\ doms' = [d \in DOMAIN doms |-> [doms[d] EXCEPT !.alive = FALSE]]
            /\ fors' = [f \in DOMAIN fors |-> [fors[f] EXCEPT !.alive = FALSE]]
            /\ edges' = [s \in DOMAIN edges |-> DetachedEdge]
            /\ ids' = [s \in DOMAIN ids |-> << >>]
       ELSE Same(<<lib, doms, fors, edges, ids>>)
    /\ err' = IF ev.ok = 1 THEN "ok" ELSE ev.err
    /\ viol' = viol \cup
         (IF lib /\ ev.ok = 0 THEN {V("C17", "cleanup-failed-" \o ev.err)}
          ELSE IF ~lib /\ ev.ok = 1 THEN {V("C17", "cleanup-of-uninitialised-accepted")}
          ELSE {})
    /\ Same(<<nextFid, known>>)

DoDom(ev) ==
    /\ doms' = IF ev.ok = 1 THEN (ev.d :> [sizes |-> ev.sizes, alive |-> TRUE]) @@ doms ELSE doms
    /\ err' = IF ev.ok = 1 THEN "ok" ELSE ev.err
    /\ viol' = viol \cup (IF lib /\ ev.ok = 0 THEN {V("C17", "create-domain-failed-" \o ev.err)} ELSE {})
    /\ Same(<<lib, fors, edges, nextFid, ids, known>>)

DoDDom(ev) ==
    /\ IF ev.ok = 1
       THEN /\ doms' = [doms EXCEPT ![ev.d].alive = FALSE]
            /\ fors' = [f \in DOMAIN fors |->
                          IF fors[f].d = ev.d THEN [fors[f] EXCEPT !.alive = FALSE] ELSE fors[f]]
            /\ edges' = [s \in DOMAIN edges |->
                          IF edges[s].f # NoForest /\ fors[edges[s].f].d = ev.d
                          THEN DetachedEdge ELSE edges[s]]
       ELSE Same(<<doms, fors, edges>>)
    /\ err' = IF ev.ok = 1 THEN "ok" ELSE ev.err
    /\ viol' = viol \cup (IF ev.ok = 0 THEN {V("C17", "destroy-domain-failed-" \o ev.err)} ELSE {})
    /\ Same(<<lib, nextFid, ids, known>>)

DoFor(ev) ==
    LET rel   == ev.rel = 1
        valid == ValidKind(rel, ev.rng, ev.lab) /\ ValidRule(rel, ev.rule)
    IN
    /\ IF ev.ok = 1
       THEN /\ fors' = (ev.f :> [d |-> ev.d, rel |-> rel, rng |-> ev.rng, lab |-> ev.lab,
                                rule |-> ev.rule, alive |-> TRUE, fid |-> ev.fid]) @@ fors
            /\ nextFid' = ev.fid + 1
       ELSE Same(<<fors, nextFid>>)
    /\ err' = IF ev.ok = 1 THEN "ok" ELSE ev.err
    /\ viol' = viol \cup
         (IF ev.ok = 1
          THEN (IF ev.fid < nextFid THEN {V("C17", "forest-id-reused")} ELSE {})
               \cup (IF \E g \in DOMAIN fors : fors[g].alive /\ fors[g].fid = ev.fid
                     THEN {V("C17", "forest-id-shared")} ELSE {})
               \cup (IF ~valid THEN {V("C16", "invalid-forest-kind-accepted")} ELSE {})
          ELSE IF valid THEN {V("C17", "create-forest-failed-" \o ev.err)} ELSE {})
    /\ Same(<<lib, doms, edges, ids, known>>)

DoDFor(ev) ==
    /\ IF ev.ok = 1
       THEN /\ fors' = [fors EXCEPT ![ev.f].alive = FALSE]
            /\ edges' = [s \in DOMAIN edges |-> IF edges[s].f = ev.f THEN DetachedEdge ELSE edges[s]]
       ELSE Same(<<fors, edges>>)
    /\ err' = IF ev.ok = 1 THEN "ok" ELSE ev.err
    /\ viol' = viol \cup (IF ev.ok = 0 THEN {V("C17", "destroy-forest-failed-" \o ev.err)} ELSE {})
    /\ Same(<<lib, doms, nextFid, ids, known>>)

\* New / Copy / Asg / Attach: the slot takes what the specification says; the
\* observation must agree
EdgeViol(expected, res, p) ==
    IF expected.f # res.f THEN {V(p, "edge-attached-to-wrong-forest")}
    ELSE IF expected.f = NoForest THEN {}
    ELSE IF ~Has(res, "fn") THEN {V(p, "edge-cannot-be-evaluated-" \o res.oerr)}
    ELSE IF FnEq(expected.fn, res.fn) THEN {} ELSE {V(p, "edge-denotes-wrong-function")}

DoNew(ev) ==
    /\ IF ev.ok = 1
       THEN /\ edges' = AdoptEdge(ev.s, ev.res)
            /\ ids' = AdoptId(ev.s, ev.res)
            /\ viol' = viol \cup EdgeViol(FreshEdge(IF ev.f < 0 THEN NoForest ELSE ev.f), ev.res, "C17")
       ELSE /\ Same(<<edges, ids>>)
            /\ viol' = viol \cup {V("C17", "new-edge-failed-" \o ev.err)}
    /\ err' = IF ev.ok = 1 THEN "ok" ELSE ev.err
    /\ Same(<<lib, doms, fors, nextFid, known>>)

DoCopy(ev) ==
    /\ IF ev.ok = 1
       THEN /\ edges' = AdoptEdge(ev.s, ev.res)
            /\ ids' = AdoptId(ev.s, ev.res)
            /\ viol' = viol \cup EdgeViol(edges[ev.src], ev.res, "C06")
                            \cup (IF ev.res.f >= 0 /\ ev.src \in DOMAIN ids /\ ids[ev.src] # ev.res.id
                                  THEN {V("C01", "copy-has-different-identity")} ELSE {})
       ELSE /\ Same(<<edges, ids>>)
            /\ viol' = viol \cup {V("C06", "copy-edge-failed-" \o ev.err)}
    /\ err' = IF ev.ok = 1 THEN "ok" ELSE ev.err
    /\ Same(<<lib, doms, fors, nextFid, known>>)

DoAsg(ev) == DoCopy(ev)

DoAttach(ev) ==
    /\ IF ev.ok = 1
       THEN /\ edges' = AdoptEdge(ev.s, ev.res)
            /\ ids' = AdoptId(ev.s, ev.res)
            /\ viol' = viol \cup EdgeViol(FreshEdge(IF ev.f < 0 THEN NoForest ELSE ev.f), ev.res, "C17")
       ELSE /\ Same(<<edges, ids>>)
            /\ viol' = viol \cup {V("C17", "attach-failed-" \o ev.err)}
    /\ err' = IF ev.ok = 1 THEN "ok" ELSE ev.err
    /\ Same(<<lib, doms, fors, nextFid, known>>)

DoDel(ev) ==
    /\ edges' = [t \in DOMAIN edges \ {ev.s} |-> edges[t]]
    /\ ids' = [t \in DOMAIN ids \ {ev.s} |-> ids[t]]
    /\ err' = IF ev.ok = 1 THEN "ok" ELSE ev.err
    /\ viol' = viol \cup (IF ev.ok = 0 THEN {V("C06", "delete-edge-failed-" \o ev.err)} ELSE {})
    /\ Same(<<lib, doms, fors, nextFid, known>>)

\* a call that writes a function into slot s (constructions and operations)
Result(s, out, ev, p) ==
    /\ IF ev.ok = 1
       THEN /\ edges' = AdoptEdge(s, ev.res)
            /\ ids' = AdoptId(s, ev.res)
            /\ viol' = viol \cup OutcomeViol(out, ev, p) \cup CanonViol(s, ev.res)
       ELSE /\ Same(<<edges, ids>>)
            /\ viol' = viol \cup OutcomeViol(out, ev, p)
    /\ err' = IF ev.ok = 1 THEN "ok" ELSE ev.err
    /\ Same(<<lib, doms, fors, nextFid, known>>)

DoColl(ev)  == Result(ev.s, CollOutcome(ev.s, ev.f, ev.mode, ev.deflt, ev.mts), ev, "C03")
DoConst(ev) == Result(ev.s, ConstOutcome(ev.s, ev.f, ev.v), ev, "C03")
DoVar(ev)   == Result(ev.s, VarOutcome(ev.s, ev.f, ev.vh, ev.pr = 1, ev.terms), ev, "C03")
DoBin(ev)   == Result(ev.r, BinaryOutcome(ev.op, ev.r, ev.a, ev.b), ev, PropOfBin(ev.op))
DoUn(ev)    == Result(ev.r, UnaryOutcome(ev.op, ev.r, ev.a), ev, PropOfUn(ev.op))

\* Obs: every listed edge must still be attached where the specification says
\* and denote the function the specification holds for it
ObsViol(E) ==
    UNION { IF E[x].s \in DOMAIN edges
            THEN EdgeViol(edges[E[x].s], E[x], "HELD")
            ELSE {V("HELD", "unknown-slot")} : x \in 1..Len(E) }

\* C01 over all observed edges
ObsCanonViol(E) ==
    LET idx == {x \in 1..Len(E) : E[x].f >= 0 /\ Has(E[x], "fn") /\ ~HasOff(E[x].fn)}
        bad == {<<x, y>> \in idx \X idx :
                    x < y /\ E[x].f = E[y].f /\ ((E[x].id = E[y].id) # (E[x].fn = E[y].fn))}
    IN IF bad = {} THEN {} ELSE {V("C01", "identity-vs-function")}

DoObs(ev) ==
    /\ viol' = viol \cup ObsViol(ev.E) \cup ObsCanonViol(ev.E)
    /\ Same(<<vars, ids, known>>)

DoCrash(ev) ==
    /\ viol' = viol \cup {V("CRASH", ev.cmd)}
    /\ Same(<<vars, ids, known>>)

Ignored == {"NewNode", "DelNode", "Recycle", "CTAdd", "CTHit", "CTDel", "Snap", "End", "Tag",
            "ClearCT", "RmStale", "ClearAll", "Bulk"}

Step ==
    /\ l <= Len(TraceLog)
    /\ ~done
    /\ LET ev == TraceLog[l] IN
       CASE ev.e = "Reset"   -> DoReset(ev)
         [] ev.e = "Init"    -> DoInit(ev)
         [] ev.e = "Cleanup" -> DoCleanup(ev)
         [] ev.e = "Dom"     -> DoDom(ev)
         [] ev.e = "DDom"    -> DoDDom(ev)
         [] ev.e = "For"     -> DoFor(ev)
         [] ev.e = "DFor"    -> DoDFor(ev)
         [] ev.e = "New"     -> DoNew(ev)
         [] ev.e = "Copy"    -> DoCopy(ev)
         [] ev.e = "Asg"     -> DoAsg(ev)
         [] ev.e = "Attach"  -> DoAttach(ev)
         [] ev.e = "Del"     -> DoDel(ev)
         [] ev.e = "Coll"    -> DoColl(ev)
         [] ev.e = "Const"   -> DoConst(ev)
         [] ev.e = "Var"     -> DoVar(ev)
         [] ev.e = "Bin"     -> DoBin(ev)
         [] ev.e = "Un"      -> DoUn(ev)
         [] ev.e = "Obs"     -> DoObs(ev)
         [] ev.e = "Crash"   -> DoCrash(ev)
         [] ev.e \in Ignored -> Same(<<vars, ids, viol, known>>)
         [] OTHER            -> /\ viol' = viol \cup {V("MODEL", "unknown-event-" \o ev.e)}
                                /\ Same(<<vars, ids, known>>)
    /\ l' = l + 1
    /\ done' = FALSE

Finish ==
    /\ l = Len(TraceLog) + 1
    /\ ~done
    /\ PrintT(<<"RESULT", ToJson([lines |-> Len(TraceLog), viol |-> viol, known |-> known])>>)
    /\ done' = TRUE
    /\ Same(<<vars, l, ids, viol, known>>)

TraceInit ==
    /\ Init
    /\ l = 1 /\ ids = << >> /\ viol = {} /\ known = {} /\ done = FALSE

TraceNext == Step \/ Finish

TraceSpec == TraceInit /\ [][TraceNext]_tvars

\* invariants of MddApi re-evaluated on every observed state
TraceInv == AttachedIsLive

=============================================================================
