---------------------------- MODULE MddApiTrace ----------------------------
(***************************************************************************)
(* Trace validation of recorded executions of the real library against     *)
(* MddApi.  Each NDJSON line is one event; each event is explained by the  *)
(* corresponding MddApi action (same outcome operators).  Checks are       *)
(* *soft*: a recorded result that differs from the specification's adds a  *)
(* tagged record to viol and the observed state is adopted, so the rest of *)
(* the execution is still checked against what the library really holds.   *)
(*                                                                         *)
(* Known deviations of the implementation (DESIGN.md section 5) are named  *)
(* operators below (Dev...): a disagreement that matches one is recorded   *)
(* with kind "KF:<key>"; whether <key> is listed in known_findings.json is  *)
(* decided by the checker - with the key not listed it is a violation.     *)
(***************************************************************************)
EXTENDS MddApi, Json, IOUtils

VARIABLES
    l,          \* next trace line
    ids,        \* slot |-> observed identity (node handle, edge value words)
    viol,       \* set of [p, l, k]: property tag, line, kind
    pend,       \* the call announced by the last "Call" line (<< >>: none); a
                \* crash or hang is attributed to it
    done

tvars == <<vars, l, ids, viol, pend, done>>

TraceLog == ndJsonDeserialize(IOEnv.TRACE)

Has(r, k) == k \in DOMAIN r

V(p, k) == [p |-> p, l |-> l, k |-> k]

-----------------------------------------------------------------------------
FnEq(a, b) ==
    /\ Len(a) = Len(b)
    /\ \A i \in 1..Len(a) : a[i] = b[i] \/ a[i] = OffGrid \/ b[i] = OffGrid

HasOff(a) == \E i \in 1..Len(a) : a[i] = OffGrid

ArithErrs == {"DIVIDE_BY_ZERO", "SUBTRACT_INFINITY", "INFINITY_DIV_INFINITY"}

(***************************************************************************)
(* Named deviations.  Each returns a key, or "" when it does not apply.    *)
(***************************************************************************)

\* An arithmetic call returns a value although some point is an invalid
\* scalar case (division by zero, infinity - infinity, infinity / infinity):
\* the recursion took a shortcut on a whole sub-function before reaching the
\* invalid point.  The deviation is recognised only if the returned table is
\* right at every valid point and, at *every* invalid point, shows one and
\* the same shortcut:
\*   first-operand-zero : first operand 0, result 0          (DIVIDE, MODULO)
\*   equal-operands     : operands equal, result 1 / 0 / 0   (DIVIDE / MODULO / MINUS)
\*   both-infinite      : both operands infinite, result infinite (EV+)
DevErrShortcut(ev, out) ==
    IF ~(ev.e = "Bin" /\ ev.op \in {"DIVIDE", "MODULO", "MINUS"} /\ ev.ok = 1 /\ ~out.ok
         /\ out.errs \subseteq ArithErrs /\ Has(ev.res, "fn")
         /\ LiveEdge(ev.a) /\ LiveEdge(ev.b)) THEN ""
    ELSE
    LET A == edges[ev.a].fn  B == edges[ev.b].fn  R == ev.res.fn
        cls == Cls(fors[edges[ev.a].f])
        one == IF IsReal(cls) THEN 64 ELSE 1
        X  == [i \in DOMAIN B |-> IF Bad(A[i]) \/ Bad(B[i]) THEN OffGrid ELSE ScBin(ev.op, cls, A[i], B[i])]
        Z  == {i \in DOMAIN B : IsErrV(X[i])}
        rest == \A i \in DOMAIN B \ Z : Bad(X[i]) \/ Bad(R[i]) \/ X[i] = R[i]
        zero1(i) == ev.op # "MINUS" /\ A[i] = 0 /\ R[i] = 0
        equal(i) == A[i] = B[i] /\ R[i] = (IF ev.op = "DIVIDE" THEN one ELSE 0)
        binf(i)  == A[i] = Inf /\ B[i] = Inf /\ R[i] = Inf
        skips    == fors[edges[ev.a].f].rule = "I" \/ fors[edges[ev.b].f].rule = "I"
    IN IF ~rest \/ Z = {} THEN ""
       ELSE IF \A i \in Z : zero1(i) THEN ev.op \o ":shortcut:first-operand-zero"
       ELSE IF \A i \in Z : equal(i) THEN ev.op \o ":shortcut:equal-operands"
       ELSE IF \A i \in Z : binf(i)  THEN ev.op \o ":shortcut:both-infinite"
       \* a mixture: every invalid point shows one of the three shortcuts above, or
       \* the operands live in an identity-reduced forest (skipped identity levels)
       ELSE IF skips \/ \A i \in Z : zero1(i) \/ equal(i) \/ binf(i)
            THEN ev.op \o ":invalid-point-not-detected"
       ELSE ""

\* DIST_INC with an identity-reduced argument forest is wrong wherever the
\* argument skips an identity level (the incremented value is re-expanded with
\* identity patterns whose off-diagonal entries are 0, and from level 0 instead
\* of the node's level, which can even produce an edge that cannot be
\* evaluated).  Any disagreement of a DIST_INC call whose argument forest is
\* identity-reduced falls in this class; every other DIST_INC call is checked
\* in full.
DevDistInc(ev, out) ==
    IF ev.e = "Un" /\ ev.op = "DIST_INC" /\ ev.ok = 1 /\ out.ok
       /\ LiveEdge(ev.a) /\ fors[edges[ev.a].f].rule = "I"
    THEN "DIST_INC:identity-reduced-argument" ELSE ""

\* COPY from an identity-reduced multi-terminal (or EV*) relation into an EV+ relation:
\* the zeros implicit in skipped identity levels of the source are rebuilt with
\* the *target's* transparent value, +infinity.  Recognised only for that forest
\* combination and only if the result is wrong exactly at points where the
\* source is 0 and the result is +infinity.
DevCopy(ev, out) ==
    IF ~(ev.e = "Un" /\ ev.op = "COPY" /\ ev.ok = 1 /\ out.ok /\ Has(ev.res, "fn")
         /\ LiveEdge(ev.a) /\ LiveEdge(ev.r)
         /\ fors[edges[ev.a].f].rule = "I" /\ fors[edges[ev.a].f].lab \in {"MT", "ET"}
         /\ fors[edges[ev.r].f].lab = "EP") THEN ""
    ELSE LET A == edges[ev.a].fn  R == ev.res.fn
             D == {i \in DOMAIN A : ~Bad(out.fn[i]) /\ ~Bad(R[i]) /\ out.fn[i] # R[i]}
         IN IF D # {} /\ \A i \in D : A[i] = 0 /\ R[i] = Inf
            THEN "COPY:identity-reduced->EV+relation:implicit-zero-becomes-infinity" ELSE ""

\* Saturation (REACHABLE_SATUR and SATURATION_FORWARD over a pregen relation)
\* interprets a skipped level of the relation as "variable unchanged", which
\* is what it means only in an identity-reduced forest.  With a fully- or
\* quasi-reduced relation forest results can be wrong and the call can crash.
\* Recognised by the relation operand's forest alone; with an identity-reduced
\* relation forest every saturation call is checked in full.
SatRelKey(op, b) ==
    IF op \in {"REACH_SAT_F", "REACH_SAT_B", "SATURATION_FORWARD"} /\ LiveEdge(b)
       /\ fors[edges[b].f].rel /\ fors[edges[b].f].rule # "I"
    THEN (IF op = "SATURATION_FORWARD" THEN "SATURATION_FORWARD" ELSE "REACHABLE_SATUR")
         \o ":relation-forest-not-identity-reduced"
    ELSE ""

DevSat(ev, out) ==
    IF ev.e = "Bin" THEN SatRelKey(ev.op, ev.b)
    ELSE IF ev.e = "Sat" /\ Len(ev.evs) > 0 THEN SatRelKey("SATURATION_FORWARD", ev.evs[1])
    ELSE ""

DevWrong(ev, out) ==
    IF DevDistInc(ev, out) # "" THEN DevDistInc(ev, out)
    ELSE IF DevCopy(ev, out) # "" THEN DevCopy(ev, out)
    ELSE DevSat(ev, out)

\* compare the specification's outcome with the recorded one
OutcomeViol(out, ev, p) ==
    IF out.err = "unmodelled" THEN {}
    ELSE IF out.ok
    THEN IF ev.ok = 1
         THEN IF ~Has(ev.res, "fn")
              THEN (IF DevDistInc(ev, out) # "" THEN {V(p, "KF:" \o DevDistInc(ev, out))}
                    ELSE IF DevSat(ev, out) # "" THEN {V(p, "KF:" \o DevSat(ev, out))}
                    ELSE {V(p, "result-cannot-be-evaluated-" \o ev.res.oerr)})
              ELSE IF FnEq(out.fn, ev.res.fn) THEN {}
              ELSE LET k == DevWrong(ev, out) IN
                   IF k # "" THEN {V(p, "KF:" \o k)} ELSE {V(p, "wrong-function")}
         ELSE IF DevSat(ev, out) # "" THEN {V(p, "KF:" \o DevSat(ev, out))}
         ELSE {V(p, "unexpected-error-" \o ev.err)}
    ELSE IF ev.ok = 1
         THEN LET k == DevErrShortcut(ev, out) IN
              IF k # "" THEN {V(p, "KF:" \o k)}
              ELSE {V("C16", "no-error-raised-expected-" \o out.err)}
                   \cup (IF out.errs \subseteq ArithErrs THEN {V(p, "no-error-raised-expected-" \o out.err)} ELSE {})
         ELSE IF "ANY" \in out.errs \/ ev.err \in out.errs THEN {}
              ELSE {V("C16", "wrong-error-code-" \o ev.err \o "-expected-" \o out.err)}

\* adopt what the library reports for slot s
\* (a result the library cannot even evaluate - "oerr" - is adopted as a table
\* of unknown values, so that later comparisons skip it)
Observed(res) ==
    IF res.f < 0 THEN DetachedEdge
    ELSE IF Has(res, "fn") THEN [f |-> res.f, fn |-> res.fn]
    ELSE [f |-> res.f, fn |-> [i \in 1..NPts(fors[res.f]) |-> OffGrid]]

AdoptEdge(s, res) == (s :> Observed(res)) @@ edges
\* identity (what dd_edge::operator== compares: node, edge value words, edge value
\* type) followed by the exact fingerprint of the function table
AdoptId(s, res)   == (s :> (IF Has(res, "id") THEN res.id \o (IF Has(res, "fh") THEN res.fh ELSE << >>) ELSE << >>)) @@ ids
IdOf(x) == SubSeq(x, 1, 5)
FhOf(x) == SubSeq(x, 6, Len(x))

\* do the edge in slot t and the observed result denote the same function?  Tables
\* are compared directly; if either holds a value the trace encoding cannot carry
\* (OffGrid) the exact fingerprints recorded by the driver are compared instead
SameFunction(t, res) ==
    IF HasOff(edges[t].fn) \/ HasOff(res.fn)
    THEN Has(res, "fh") /\ Len(ids[t]) > 5 /\ FhOf(ids[t]) = res.fh
    ELSE edges[t].fn = res.fn

\* C01: within one forest, equal identity <=> equal function, for the new
\* result against every other held edge
\* C01, structure: the recorded node count of an edge is the canonical size of the
\* function it denotes (tables and sizes are by *level*, so this holds in every
\* variable order a forest has been given)
SizeViol(res) ==
    IF res.f < 0 \/ ~Has(res, "nc") \/ ~Has(res, "fn") \/ ~LiveForest(res.f) THEN {}
    ELSE LET F == fors[res.f] IN
         IF HasOff(res.fn) \/ Len(res.fn) # NPts(F) THEN {}
         ELSE IF F.rel
         THEN (IF F.lab = "MT" /\ res.nc # RelCanonSize(res.fn, FDS(F), F.rule)
               THEN {V("C01", "node-count-not-canonical")} ELSE {})
         ELSE IF ~(F.lab \in {"MT", "EP"}) \/ ~(F.rule \in {"F", "Q"}) THEN {}
         ELSE IF res.nc # CanonSize(res.fn, FDS(F), F.lab = "EP", F.rule = "F")
              THEN {V("C01", "node-count-not-canonical")} ELSE {}

CanonViol(s, res) ==
    IF res.f < 0 \/ ~Has(res, "id") \/ ~Has(res, "fn") THEN {}
    ELSE SizeViol(res) \cup
         LET others == {t \in DOMAIN edges \ {s} :
                            /\ edges[t].f = res.f
                            /\ t \in DOMAIN ids /\ ids[t] # << >>
                            /\ (HasOff(edges[t].fn) \/ HasOff(res.fn)) => (Has(res, "fh") /\ Len(ids[t]) > 5)}
             bad == {t \in others : (IdOf(ids[t]) = res.id) # SameFunction(t, res)}
         IN IF bad = {} THEN {} ELSE {V("C01", "identity-vs-function")}

PropOfBin(op) ==
    CASE op \in {"UNION", "INTERSECTION", "DIFFERENCE", "CROSS"} -> "C04"
      [] op \in {"PRE_IMAGE", "POST_IMAGE", "VM_MULTIPLY", "MV_MULTIPLY"} -> "C09"
      [] op \in ReachOps -> "C08"
      [] OTHER -> "C05"

PropOfUn(op) ==
    CASE op = "COMPLEMENT" -> "C04"
      [] op = "COPY" -> "C10"
      [] op = "TOINDEX" -> "C15"
      [] OTHER -> "C05"

-----------------------------------------------------------------------------
(* Events *)

Same(S) == UNCHANGED S

DoReset(ev) ==
    /\ lib' = FALSE /\ doms' = << >> /\ fors' = << >> /\ edges' = << >>
    /\ nextFid' = 1 /\ err' = "ok" /\ ids' = << >> /\ files' = << >>
    /\ Same(<<viol>>)

DoInit(ev) ==
    /\ lib' = (ev.ok = 1 \/ lib)
    /\ nextFid' = IF ev.ok = 1 THEN 1 ELSE nextFid
    /\ err' = IF ev.ok = 1 THEN "ok" ELSE ev.err
    /\ viol' = viol \cup
         (IF lib /\ ev.ok = 1 THEN {V("C17", "double-initialize-accepted")}
          ELSE IF ~lib /\ ev.ok = 0 THEN {V("C17", "initialize-failed-" \o ev.err)}
          ELSE IF lib /\ ev.ok = 0 /\ ev.err # "ALREADY_INITIALIZED" THEN {V("C16", "wrong-error-code-" \o ev.err)}
          ELSE {})
    /\ Same(<<doms, fors, edges, ids, files>>)

DoCleanup(ev) ==
    /\ IF ev.ok = 1
       THEN /\ lib' = FALSE
            /\ doms' = [d \in DOMAIN doms |-> [doms[d] EXCEPT !.alive = FALSE]]
            /\ fors' = [f \in DOMAIN fors |-> [fors[f] EXCEPT !.alive = FALSE]]
            /\ edges' = [s \in DOMAIN edges |-> DetachedEdge]
            /\ ids' = [s \in DOMAIN ids |-> << >>]
       ELSE Same(<<lib, doms, fors, edges, ids>>)
    /\ err' = IF ev.ok = 1 THEN "ok" ELSE ev.err
    /\ viol' = viol \cup
         (IF lib /\ ev.ok = 0 THEN {V("C17", "cleanup-failed-" \o ev.err)}
          ELSE IF ~lib /\ ev.ok = 1 THEN {V("C17", "cleanup-of-uninitialised-accepted")}
          ELSE IF ~lib /\ ev.ok = 0 /\ ev.err # "UNINITIALIZED" THEN {V("C16", "wrong-error-code-" \o ev.err)}
          ELSE {})
    /\ Same(<<nextFid, files>>)

DoDom(ev) ==
    /\ doms' = IF ev.ok = 1 THEN (ev.d :> [sizes |-> ev.sizes, alive |-> TRUE]) @@ doms ELSE doms
    /\ err' = IF ev.ok = 1 THEN "ok" ELSE ev.err
    /\ viol' = viol \cup (IF lib /\ ev.ok = 0 THEN {V("C17", "create-domain-failed-" \o ev.err)} ELSE {})
    /\ Same(<<lib, fors, edges, nextFid, ids, files>>)

DoDDom(ev) ==
    /\ IF ev.ok = 1
       THEN /\ doms' = [doms EXCEPT ![ev.d].alive = FALSE]
            /\ fors' = [f \in DOMAIN fors |->
                          IF fors[f].d = ev.d THEN [fors[f] EXCEPT !.alive = FALSE] ELSE fors[f]]
            /\ edges' = [s \in DOMAIN edges |->
                          IF edges[s].f # NoForest /\ fors[edges[s].f].d = ev.d
                          THEN DetachedEdge ELSE edges[s]]
       ELSE Same(<<doms, fors, edges>>)
    /\ err' = IF ev.ok = 1 THEN "ok" ELSE ev.err
    /\ viol' = viol \cup (IF ev.ok = 0 THEN {V("C17", "destroy-domain-failed-" \o ev.err)} ELSE {})
    /\ Same(<<lib, nextFid, ids, files>>)

DoFor(ev) ==
    LET rel   == ev.rel = 1
        valid == ValidKind(rel, ev.rng, ev.lab) /\ ValidRule(rel, ev.rule)
    IN
    /\ IF ev.ok = 1
       THEN /\ fors' = (ev.f :> [d |-> ev.d, rel |-> rel, rng |-> ev.rng, lab |-> ev.lab,
                                rule |-> ev.rule, alive |-> TRUE, fid |-> ev.fid,
                                l2v |-> [k \in 1..Len(doms[ev.d].sizes) |-> k],
                                swp |-> ev.swp, heur |-> ev.heur]) @@ fors
            /\ nextFid' = ev.fid + 1
       ELSE Same(<<fors, nextFid>>)
    /\ err' = IF ev.ok = 1 THEN "ok" ELSE ev.err
    /\ viol' = viol \cup
         (IF ev.ok = 1
          THEN (IF ev.fid < nextFid THEN {V("C17", "forest-id-reused")} ELSE {})
               \cup (IF \E g \in DOMAIN fors : fors[g].alive /\ fors[g].fid = ev.fid
                     THEN {V("C17", "forest-id-shared")} ELSE {})
               \cup (IF ~valid THEN {V("C16", "invalid-forest-kind-accepted")} ELSE {})
          ELSE IF valid THEN {V("C17", "create-forest-failed-" \o ev.err)} ELSE {})
    /\ Same(<<lib, doms, edges, ids, files>>)

DoDFor(ev) ==
    /\ IF ev.ok = 1
       THEN /\ fors' = [fors EXCEPT ![ev.f].alive = FALSE]
            /\ edges' = [s \in DOMAIN edges |-> IF edges[s].f = ev.f THEN DetachedEdge ELSE edges[s]]
       ELSE Same(<<fors, edges>>)
    /\ err' = IF ev.ok = 1 THEN "ok" ELSE ev.err
    /\ viol' = viol \cup (IF ev.ok = 0 THEN {V("C17", "destroy-forest-failed-" \o ev.err)} ELSE {})
    /\ Same(<<lib, doms, nextFid, ids, files>>)

\* New / Copy / Asg / Attach: the slot takes what the specification says; the
\* observation must agree
EdgeViol(expected, res, p) ==
    IF expected.f # res.f THEN {V(p, "edge-attached-to-wrong-forest")}
    ELSE IF expected.f = NoForest THEN {}
    ELSE IF ~Has(res, "fn") THEN {V(p, "edge-cannot-be-evaluated-" \o res.oerr)}
    ELSE IF FnEq(expected.fn, res.fn) THEN {} ELSE {V(p, "edge-denotes-wrong-function")}

DoNew(ev) ==
    /\ IF ev.ok = 1
       THEN /\ edges' = AdoptEdge(ev.s, ev.res)
            /\ ids' = AdoptId(ev.s, ev.res)
            /\ viol' = viol \cup EdgeViol(FreshEdge(IF ev.f < 0 THEN NoForest ELSE ev.f), ev.res, "C17")
       ELSE /\ Same(<<edges, ids>>)
            /\ viol' = viol \cup {V("C17", "new-edge-failed-" \o ev.err)}
    /\ err' = IF ev.ok = 1 THEN "ok" ELSE ev.err
    /\ Same(<<lib, doms, fors, nextFid, files>>)

DoCopy(ev) ==
    /\ IF ev.ok = 1
       THEN /\ edges' = AdoptEdge(ev.s, ev.res)
            /\ ids' = AdoptId(ev.s, ev.res)
            /\ viol' = viol \cup EdgeViol(edges[ev.src], ev.res, "C06")
                            \cup (IF ev.res.f >= 0 /\ ev.src \in DOMAIN ids /\ ids[ev.src] # << >> /\ IdOf(ids[ev.src]) # ev.res.id
                                  THEN {V("C01", "copy-has-different-identity")} ELSE {})
       ELSE /\ Same(<<edges, ids>>)
            /\ viol' = viol \cup {V("C06", "copy-edge-failed-" \o ev.err)}
    /\ err' = IF ev.ok = 1 THEN "ok" ELSE ev.err
    /\ Same(<<lib, doms, fors, nextFid, files>>)

DoAsg(ev) == DoCopy(ev)

DoAttach(ev) ==
    /\ IF ev.ok = 1
       THEN /\ edges' = AdoptEdge(ev.s, ev.res)
            /\ ids' = AdoptId(ev.s, ev.res)
            /\ viol' = viol \cup EdgeViol(AttachResult(ev.s, IF ev.f < 0 THEN NoForest ELSE ev.f), ev.res, "C17")
       ELSE /\ Same(<<edges, ids>>)
            /\ viol' = viol \cup {V("C17", "attach-failed-" \o ev.err)}
    /\ err' = IF ev.ok = 1 THEN "ok" ELSE ev.err
    /\ Same(<<lib, doms, fors, nextFid, files>>)

DoDel(ev) ==
    /\ edges' = [t \in DOMAIN edges \ {ev.s} |-> edges[t]]
    /\ ids' = [t \in DOMAIN ids \ {ev.s} |-> ids[t]]
    /\ err' = IF ev.ok = 1 THEN "ok" ELSE ev.err
    /\ viol' = viol \cup (IF ev.ok = 0 THEN {V("C06", "delete-edge-failed-" \o ev.err)} ELSE {})
    /\ Same(<<lib, doms, fors, nextFid, files>>)

\* a call that writes a function into slot s (constructions and operations)
Result(s, out, ev, p) ==
    /\ IF ev.ok = 1
       THEN /\ edges' = AdoptEdge(s, ev.res)
            /\ ids' = AdoptId(s, ev.res)
            /\ viol' = viol \cup OutcomeViol(out, ev, p) \cup CanonViol(s, ev.res)
       ELSE /\ Same(<<edges, ids>>)
            /\ viol' = viol \cup OutcomeViol(out, ev, p)
    /\ err' = IF ev.ok = 1 THEN "ok" ELSE ev.err
    /\ Same(<<lib, doms, fors, nextFid, files>>)

\* distance functions in multi-terminal forests: every negative value means
\* "unreachable", so such results are compared after mapping negatives to -1
DistanceCall(ev) ==
    /\ ev.e = "Bin" /\ ev.op \in ReachOps \cup {"PRE_IMAGE", "POST_IMAGE"}
    /\ LiveEdge(ev.a) /\ fors[edges[ev.a].f].lab = "MT" /\ fors[edges[ev.a].f].rng = "I"

NormOut(out, ev) == IF out.ok /\ out.err # "unmodelled" /\ DistanceCall(ev)
                    THEN [out EXCEPT !.fn = NegClass(out.fn)] ELSE out
NormEv(ev) == IF DistanceCall(ev) /\ ev.ok = 1 /\ Has(ev.res, "fn")
              THEN [ev EXCEPT !.res.fn = NegClass(ev.res.fn)] ELSE ev

DoColl(ev)  == Result(ev.s, CollOutcome(ev.s, ev.f, ev.mode, ev.deflt, ev.mts), ev, "C03")
DoConst(ev) == Result(ev.s, ConstOutcome(ev.s, ev.f, ev.v), ev, "C03")
DoVar(ev)   == Result(ev.s, VarOutcome(ev.s, ev.f, ev.vh, ev.pr = 1, ev.terms), ev, "C03")
DoUNode(ev) == Result(ev.s, NodeOutcome(ev.s, ev.f, ev.lvl, ev.kids), ev, "C01")
DoBin(ev)   == LET out == BinaryOutcome(ev.op, ev.r, ev.a, ev.b) IN
               /\ IF ev.ok = 1
                  THEN /\ edges' = AdoptEdge(ev.r, ev.res)
                       /\ ids' = AdoptId(ev.r, ev.res)
                       /\ viol' = viol \cup OutcomeViol(NormOut(out, ev), NormEv(ev), PropOfBin(ev.op)) \cup CanonViol(ev.r, ev.res)
                  ELSE /\ Same(<<edges, ids>>)
                       /\ viol' = viol \cup OutcomeViol(out, ev, PropOfBin(ev.op))
               /\ err' = IF ev.ok = 1 THEN "ok" ELSE ev.err
               /\ Same(<<lib, doms, fors, nextFid, files>>)
DoUn(ev)    == Result(ev.r, UnaryOutcome(ev.op, ev.r, ev.a), ev, PropOfUn(ev.op))
DoSat(ev)   == Result(ev.r, SatOutcome(ev.r, ev.init, ev.evs), ev, "C20")

\* Obs: every listed edge must still be attached where the specification says
\* and denote the function the specification holds for it; afterwards the
\* observation is adopted
ObsViol(E) ==
    UNION { IF E[x].s \in DOMAIN edges
            THEN EdgeViol(edges[E[x].s], E[x], "HELD")
            ELSE {V("HELD", "unknown-slot")} : x \in 1..Len(E) }

\* C01 over all observed edges
ObsCanonViol(E) ==
    LET idx == {x \in 1..Len(E) : E[x].f >= 0 /\ Has(E[x], "fn") /\ Has(E[x], "fh")}
        same(x, y) == IF HasOff(E[x].fn) \/ HasOff(E[y].fn) THEN E[x].fh = E[y].fh ELSE E[x].fn = E[y].fn
        bad == {<<x, y>> \in idx \X idx :
                    x < y /\ E[x].f = E[y].f /\ ((E[x].id = E[y].id) # same(x, y))}
    IN IF bad = {} THEN {} ELSE {V("C01", "identity-vs-function")}

DoObs(ev) ==
    /\ viol' = viol \cup ObsViol(ev.E) \cup ObsCanonViol(ev.E)
                     \cup UNION {SizeViol(ev.E[x]) : x \in 1..Len(ev.E)}
    /\ edges' = [s \in DOMAIN edges |->
                    IF \E x \in 1..Len(ev.E) : ev.E[x].s = s
                    THEN Observed(ev.E[CHOOSE x \in 1..Len(ev.E) : ev.E[x].s = s]) ELSE edges[s]]
    /\ ids' = [s \in DOMAIN ids |->
                    IF \E x \in 1..Len(ev.E) : ev.E[x].s = s /\ Has(ev.E[x], "id")
                    THEN LET o == ev.E[CHOOSE x \in 1..Len(ev.E) : ev.E[x].s = s /\ Has(ev.E[x], "id")]
                         IN o.id \o (IF Has(o, "fh") THEN o.fh ELSE << >>)
                    ELSE ids[s]]
    /\ Same(<<lib, doms, fors, nextFid, files, err>>)

\* queries: no state change; the answer must be the specification's
Query(vs) ==
    /\ viol' = viol \cup vs
    /\ Same(<<vars, ids>>)

KnownFn(a) == LiveEdge(a) /\ ~HasOff(edges[a].fn)
FOf(a) == fors[edges[a].f]

DoCard(ev) ==
    Query(IF ~LiveEdge(ev.a) THEN (IF ev.ok = 1 THEN {V("C16", "cardinality-of-detached-edge-accepted")} ELSE {})
          ELSE IF ev.ok = 0 THEN {V("C11", "cardinality-failed-" \o ev.err)}
          ELSE IF ~KnownFn(ev.a) THEN {}
          ELSE LET c == CardFn(edges[ev.a].fn, Transparent(FOf(ev.a))) IN
               (IF ev.cl # c THEN {V("C11", "cardinality-long")} ELSE {}) \cup
               (IF ev.cd # c THEN {V("C11", "cardinality-double")} ELSE {}) \cup
               (IF ev.cz # c THEN {V("C11", "cardinality-mpz")} ELSE {}))

\* MAX_RANGE / MIN_RANGE on an identity-reduced relation ignore the zeros that
\* are implicit in skipped (identity) levels: recognised only if the forest is
\* an identity-reduced relation, the right answer is 0, and the answer given is
\* the extreme over the non-zero values.
DevRange(ev, x) ==
    LET F == FOf(ev.a)  fn == edges[ev.a].fn
        NZ == {fn[i] : i \in {j \in DOMAIN fn : fn[j] # 0}}
    IN IF F.rel /\ F.rule = "I" /\ x = 0 /\ NZ # {}
          /\ ev.v = (IF ev.which = "MAX" THEN SetMax(NZ) ELSE SetMin(NZ))
       THEN ev.which \o "_RANGE:identity-reduced-relation:implicit-zero-ignored" ELSE ""

DoRng(ev) ==
    Query(IF ~LiveEdge(ev.a) THEN (IF ev.ok = 1 THEN {V("C16", "range-of-detached-edge-accepted")} ELSE {})
          ELSE IF ~(FOf(ev.a).lab = "MT" /\ FOf(ev.a).rng \in {"I", "R"}) THEN {}
          ELSE IF ev.ok = 0 THEN {V("C05", "range-query-failed-" \o ev.err)}
          ELSE LET x == IF ev.which = "MAX" THEN MaxRange(edges[ev.a].fn) ELSE MinRange(edges[ev.a].fn) IN
               IF Bad(x) \/ Bad(ev.v) \/ x = ev.v THEN {}
               ELSE IF DevRange(ev, x) # "" THEN {V("C05", "KF:" \o DevRange(ev, x))}
               ELSE {V("C05", "wrong-range-value")})

DoIter(ev) ==
    Query(IF ~LiveEdge(ev.a) THEN (IF ev.ok = 1 THEN {V("C16", "iteration-of-detached-edge-accepted")} ELSE {})
          ELSE IF ev.deref = 1
               THEN (IF ev.ok = 1 THEN {V("C16", "dereferencing-exhausted-iterator-accepted")}
                     ELSE IF ev.err # "INVALID_ITERATOR" THEN {V("C16", "wrong-error-code-" \o ev.err \o "-expected-INVALID_ITERATOR")}
                     ELSE {})
          ELSE IF ev.ok = 0 THEN {V("C11", "iteration-failed-" \o ev.err)}
          ELSE IF ~KnownFn(ev.a) THEN {}
          ELSE LET F == FOf(ev.a)
                   want == IterSeq(edges[ev.a].fn, Transparent(F), ev.mask, Sizes(F), F.rel)
               IN IF want = ev.seq THEN {} ELSE {V("C11", "wrong-iteration-sequence")})

DoElem(ev) ==
    Query(IF ~LiveEdge(ev.a) \/ FOf(ev.a).lab # "IX" THEN {}
          ELSE IF ev.ok = 0 THEN {V("C15", "get-element-failed-" \o ev.err)}
          ELSE IF ~KnownFn(ev.a) THEN {}
          ELSE LET r == ElemOf(edges[ev.a].fn, ev.i) IN
               IF (ev.found = 1) # (r >= 0) THEN {V("C15", "get-element-found-flag")}
               ELSE IF r >= 0 /\ ev.rank # r THEN {V("C15", "get-element-wrong-member")} ELSE {})

DoICard(ev) ==
    Query(IF ~LiveEdge(ev.a) \/ FOf(ev.a).lab # "IX" \/ ~KnownFn(ev.a) THEN {}
          ELSE IF ev.ok = 0 THEN {V("C15", "index-set-cardinality-failed-" \o ev.err)}
          ELSE IF ev.c # CardFn(edges[ev.a].fn, Inf) THEN {V("C15", "index-set-cardinality")} ELSE {})

DoEvalAt(ev) ==
    Query(IF ~LiveEdge(ev.a)
          THEN (IF ev.ok = 1 THEN {V("C16", "evaluation-of-detached-edge-accepted")} ELSE {})
          ELSE {})

DoBulk(ev) ==
    Query(IF ev.ok = 0 THEN {V("C06", "edge-copies-failed-" \o ev.err)}
          ELSE IF ev.before < 0 THEN {}
          ELSE IF ev.mid # ev.before + ev.k THEN {V("C06", "incoming-count-after-copies")}
          ELSE IF ev.after # ev.before THEN {V("C06", "incoming-count-after-releases")} ELSE {})

\* prediction of the store model (behaviours generated by TLC from MddStoreGen)
DoExpect(ev) ==
    Query((IF ev.s \in DOMAIN edges THEN EdgeViol(edges[ev.s], ev.res, "HELD") ELSE {V("HELD", "unknown-slot")}) \cup
          (IF Has(ev.res, "nc") /\ ev.res.nc # ev.nc
           THEN {V("C11", "node-count-differs-from-store-model"), V("C01", "node-count-differs-from-store-model"),
                 V("C12", "node-count-differs-from-store-model")} ELSE {}))

DoCache(ev) == Query(IF ev.ok = 0 THEN {V("C07", "cache-maintenance-failed-" \o ev.err)} ELSE {})

\* Reordering a *relation* forest whose policy selects the LEVEL swap method:
\* policies::isLevelSwap() tests for VAR, so mtmxd_forest::swapAdjacentVariables
\* takes neither branch - nothing is swapped, the requested order is not
\* established, and heuristics that wait for progress never return.
DevLevelSwap(f) ==
    IF f \in DOMAIN fors /\ fors[f].rel /\ fors[f].swp = "L"
    THEN "REORDER:relation-forest:level-swap-method" ELSE ""

\* reordering: the specification permutes every edge of the forest; what the
\* library really holds is compared at the next Obs
DoReorder(ev) ==
    IF ev.ok = 1
    THEN /\ edges' = ReorderedEdges(ev.f, ev.now)
         /\ fors' = [fors EXCEPT ![ev.f].l2v = ev.now]
         /\ viol' = viol \cup (IF ev.now = ev.l2v THEN {}
                                ELSE IF DevLevelSwap(ev.f) # "" THEN {V("C13", "KF:" \o DevLevelSwap(ev.f))}
                                ELSE {V("C13", "requested-order-not-established")})
         /\ err' = "ok"
         /\ Same(<<lib, doms, nextFid, files, ids>>)
    ELSE /\ viol' = viol \cup (IF DevLevelSwap(ev.f) # "" THEN {V("C13", "KF:" \o DevLevelSwap(ev.f))}
                                ELSE {V("C13", "reorder-failed-" \o ev.err)})
         /\ err' = ev.err
         /\ Same(<<lib, doms, fors, edges, nextFid, files, ids>>)

DoWrite(ev) ==
    IF ev.ok = 1
    THEN /\ files' = (ev.b :> [kind |-> KindOf(fors[ev.f]), sizes |-> FSizes(ev.f), rule |-> fors[ev.f].rule,
                               fns |-> [x \in 1..Len(ev.es) |-> edges[ev.es[x]].fn],
                               \* exact fingerprints, for values the table encoding cannot carry
                               fhs |-> [x \in 1..Len(ev.es) |->
                                          IF ev.es[x] \in DOMAIN ids /\ Len(ids[ev.es[x]]) > 5 THEN FhOf(ids[ev.es[x]]) ELSE << >>]]) @@ files
         /\ err' = "ok"
         /\ Same(<<lib, doms, fors, edges, nextFid, ids, viol>>)
    ELSE /\ viol' = viol \cup {V("C14", "write-failed-" \o ev.err)}
         /\ err' = ev.err
         /\ Same(<<lib, doms, fors, edges, nextFid, files, ids>>)

ReadViol(ev, f) ==
    UNION { LET want == [f |-> f, fn |-> files[ev.b].fns[x]]
                wide == /\ HasOff(want.fn) /\ Has(ev.res[x], "fh") /\ ev.res[x].f = f
                        /\ x <= Len(files[ev.b].fhs) /\ files[ev.b].fhs[x] # << >>
                        /\ ev.res[x].fh # files[ev.b].fhs[x]
            IN EdgeViol(want, ev.res[x], "C14") \cup (IF wide THEN {V("C14", "wide-values-differ")} ELSE {})
            : x \in 1..Len(ev.res) }

AdoptRead(ev) ==
    /\ edges' = [s \in DOMAIN edges \cup {ev.res[x].s : x \in 1..Len(ev.res)} |->
                    IF \E x \in 1..Len(ev.res) : ev.res[x].s = s
                    THEN Observed(ev.res[CHOOSE x \in 1..Len(ev.res) : ev.res[x].s = s
                                          /\ \A y \in 1..Len(ev.res) : ev.res[y].s = s => y <= x])
                    ELSE edges[s]]
    /\ ids' = [s \in DOMAIN ids \cup {ev.res[x].s : x \in 1..Len(ev.res)} |->
                    IF \E x \in 1..Len(ev.res) : ev.res[x].s = s
                    THEN LET o == ev.res[CHOOSE x \in 1..Len(ev.res) : ev.res[x].s = s
                                 /\ \A y \in 1..Len(ev.res) : ev.res[y].s = s => y <= x]
                         IN o.id \o (IF Has(o, "fh") THEN o.fh ELSE << >>)
                    ELSE ids[s]]

DoRead(ev) ==
    IF ev.ok = 1
    THEN /\ viol' = viol \cup ReadViol(ev, ev.f)
                         \cup (IF ev.nroots # Len(files[ev.b].fns) THEN {V("C14", "wrong-number-of-roots")} ELSE {})
         /\ AdoptRead(ev)
         /\ err' = "ok"
         /\ Same(<<lib, doms, fors, nextFid, files>>)
    ELSE /\ viol' = viol \cup (IF KindOf(fors[ev.f]) = files[ev.b].kind /\ FSizes(ev.f) = files[ev.b].sizes
                               THEN {V("C14", "read-failed-" \o ev.err)} ELSE {})
         /\ err' = ev.err
         /\ Same(<<lib, doms, fors, edges, nextFid, files, ids>>)

\* The exchange format records the forest's kind but not its reduction rule,
\* and node records keep the skipped levels of the writing forest.  A forest
\* created from the file gets the default rule of its kind (fully-reduced sets,
\* identity-reduced relations); when the writing forest used another rule the
\* skipped levels change meaning.  Recognised only when the two rules differ.
DevReadNew(ev) ==
    IF ev.b \in DOMAIN files /\ files[ev.b].rule # ev.rule
    THEN "MDD_READER:forest-created-from-file:reduction-rule-not-recorded" ELSE ""

DoReadNew(ev) ==
    IF ev.ok = 1
    THEN LET k == files[ev.b].kind IN
         /\ fors' = (ev.fnew :> [d |-> ev.d, rel |-> ev.rel = 1, rng |-> ev.rng, lab |-> ev.lab,
                                 rule |-> ev.rule, alive |-> TRUE, fid |-> ev.fid,
                                 l2v |-> [j \in 1..Len(doms[ev.d].sizes) |-> j],
                                 swp |-> "V", heur |-> "SD"]) @@ fors
         /\ nextFid' = ev.fid + 1
         /\ viol' = viol \cup (IF ReadViol(ev, ev.fnew) # {} /\ DevReadNew(ev) # ""
                                THEN {V("C14", "KF:" \o DevReadNew(ev))} ELSE ReadViol(ev, ev.fnew))
                         \cup (IF [rel |-> ev.rel = 1, rng |-> ev.rng, lab |-> ev.lab] # k
                               THEN {V("C14", "forest-created-from-file-has-wrong-kind")} ELSE {})
                         \cup (IF ev.fid < nextFid THEN {V("C17", "forest-id-reused")} ELSE {})
         /\ AdoptRead(ev)
         /\ err' = "ok"
         /\ Same(<<lib, doms, files>>)
    ELSE /\ viol' = viol \cup {V("C14", "read-failed-" \o ev.err)}
         /\ err' = ev.err
         /\ Same(<<lib, doms, fors, edges, nextFid, files, ids>>)

\* a crash, abort or hang inside the library: attributed to the pending call
DoCrash(ev) ==
    /\ viol' = viol \cup
          (IF pend # << >> /\ SatRelKey(pend.op, pend.b) # ""
           THEN {V(IF pend.op = "SATURATION_FORWARD" THEN "C20" ELSE "C08", "KF:" \o SatRelKey(pend.op, pend.b))}
           ELSE IF pend # << >> /\ pend.op = "REORDER" /\ DevLevelSwap(pend.r) # ""
           THEN {V("C13", "KF:" \o DevLevelSwap(pend.r))}
           ELSE {V("CRASH", ev.cmd)})
    /\ Same(<<vars, ids>>)

Ignored == {"NewNode", "DelNode", "Recycle", "CTAdd", "CTHit", "CTDel", "Snap", "End", "Tag",
            "MReq", "MRec"}

Step ==
    /\ l <= Len(TraceLog)
    /\ ~done
    /\ LET ev == TraceLog[l] IN
       CASE ev.e = "Reset"   -> DoReset(ev)
         [] ev.e = "Init"    -> DoInit(ev)
         [] ev.e = "Cleanup" -> DoCleanup(ev)
         [] ev.e = "Dom"     -> DoDom(ev)
         [] ev.e = "DDom"    -> DoDDom(ev)
         [] ev.e = "For"     -> DoFor(ev)
         [] ev.e = "DFor"    -> DoDFor(ev)
         [] ev.e = "New"     -> DoNew(ev)
         [] ev.e = "Copy"    -> DoCopy(ev)
         [] ev.e = "Asg"     -> DoAsg(ev)
         [] ev.e = "Attach"  -> DoAttach(ev)
         [] ev.e = "Del"     -> DoDel(ev)
         [] ev.e = "Coll"    -> DoColl(ev)
         [] ev.e = "Const"   -> DoConst(ev)
         [] ev.e = "Var"     -> DoVar(ev)
         [] ev.e = "UNode"   -> DoUNode(ev)
         [] ev.e = "Bin"     -> DoBin(ev)
         [] ev.e = "Un"      -> DoUn(ev)
         [] ev.e = "Sat"     -> DoSat(ev)
         [] ev.e = "Obs"     -> DoObs(ev)
         [] ev.e = "Card"    -> DoCard(ev)
         [] ev.e = "Rng"     -> DoRng(ev)
         [] ev.e = "Iter"    -> DoIter(ev)
         [] ev.e = "Elem"    -> DoElem(ev)
         [] ev.e = "ICard"   -> DoICard(ev)
         [] ev.e = "EvalAt"  -> DoEvalAt(ev)
         [] ev.e = "Bulk"    -> DoBulk(ev)
         [] ev.e = "Expect"  -> DoExpect(ev)
         [] ev.e \in {"Hold", "Drop"} -> Query(IF ev.ok = 0 THEN {V("C06", "edge-copies-failed-" \o ev.err)} ELSE {})
         [] ev.e \in {"ClearCT", "RmStale", "ClearAll"} -> DoCache(ev)
         [] ev.e = "Reorder" -> DoReorder(ev)
         [] ev.e = "Write"   -> DoWrite(ev)
         [] ev.e = "Read"    -> DoRead(ev)
         [] ev.e = "ReadNew" -> DoReadNew(ev)
         [] ev.e = "Crash"   -> DoCrash(ev)
         [] ev.e = "Call"    -> Same(<<vars, ids, viol>>)
         \* the driver had to stop because the script names something an earlier,
         \* failed call should have created; acceptable only after such a failure
         \* (which has been judged where it happened)
         [] ev.e = "Stop"    -> /\ viol' = viol \cup (IF err = "ok" THEN {V("MODEL", "driver-stopped-without-a-failed-call")} ELSE {})
                                /\ Same(<<vars, ids>>)
         [] ev.e \in Ignored -> Same(<<vars, ids, viol>>)
         [] OTHER            -> /\ viol' = viol \cup {V("MODEL", "unknown-event-" \o ev.e)}
                                /\ Same(<<vars, ids>>)
    /\ pend' = IF TraceLog[l].e = "Call" THEN TraceLog[l]
               ELSE IF TraceLog[l].e \in {"Bin", "Un", "Sat", "Reorder", "Reset"} THEN << >> ELSE pend
    /\ l' = l + 1
    /\ done' = FALSE

Finish ==
    /\ l = Len(TraceLog) + 1
    /\ ~done
    /\ PrintT(<<"RESULT", ToJson([lines |-> Len(TraceLog), viol |-> viol])>>)
    /\ done' = TRUE
    /\ Same(<<vars, l, ids, viol, pend>>)

TraceInit ==
    /\ Init
    /\ l = 1 /\ ids = << >> /\ viol = {} /\ pend = << >> /\ done = FALSE

TraceNext == Step \/ Finish

TraceSpec == TraceInit /\ [][TraceNext]_tvars

\* invariants of MddApi re-evaluated on every observed state
TraceInv == AttachedIsLive

=============================================================================
