SPECIFICATION Spec
CONSTANTS
  VSizes <- VS23
  H = 12
  NR = 2
  Rule = "Q"
  MaxSwaps = 2
  Bug = "none"
INVARIANT Inv
CHECK_DEADLOCK FALSE
