----------------------------- MODULE CodecTrace -----------------------------
(* Validation of the real 32-bit codec (harness/codecdrive.cc) against Codec
   with Q = 2^30. *)
EXTENDS Codec, Json, IOUtils, TLC, Sequences

VARIABLES l, viol, done
cvars == <<l, viol, done>>

TraceLog == ndJsonDeserialize(IOEnv.TRACE)
Q32 == 1073741824
InfMark == 1073741824

V(k) == [p |-> "C19", l |-> l, k |-> k]

IntViol(ev) ==
    IF InIntRange(Q32, ev.v)
    THEN IF ev.ok = 0 THEN {V("integer-in-range-rejected")}
         ELSE (IF ev.h = EncInt(Q32, ev.v) /\ ev.fh = ev.h THEN {} ELSE {V("integer-handle")}) \cup
              (IF ev.d = ev.v /\ ev.fd = ev.v THEN {} ELSE {V("integer-not-recovered")}) \cup
              (IF (ev.h = 0) = (ev.v = 0) THEN {} ELSE {V("zero-handle-not-unique")}) \cup
              (IF DecInt(Q32, ev.h) = ev.v THEN {} ELSE {V("integer-handle-decodes-differently-in-spec")})
    ELSE IF ev.ok = 1 THEN {V("integer-out-of-range-accepted")}
         ELSE IF ev.err = "Overflow" THEN {} ELSE {V("wrong-error-for-out-of-range-integer")}

RealViol(ev) ==
    IF ev.ok = 0 THEN {V("real-rejected")}
    ELSE LET z == RoundsToZero(Q32, ev.sb) IN
         (IF ev.h = EncReal(Q32, ev.sb) /\ ev.fh = ev.h THEN {} ELSE {V("real-handle")}) \cup
         (IF z THEN (IF ev.dz = 1 THEN {} ELSE {V("zero-not-recovered")})
          ELSE IF ev.db = DropLowBit(ev.sb) /\ ev.fdb = ev.db THEN {} ELSE {V("real-not-recovered-up-to-low-bit")}) \cup
         (IF (ev.h = 0) = z THEN {} ELSE {V("zero-handle-not-unique")}) \cup
         \* a non-zero handle must not decode to zero
         (IF ev.h # 0 /\ ev.dz = 1 THEN {V("non-zero-handle-decodes-to-zero")} ELSE {})

BoolViol(ev) ==
    (IF ev.h = EncBool(ev.v = 1) /\ ev.fh = ev.h THEN {} ELSE {V("boolean-handle")}) \cup
    (IF ev.d = ev.v /\ ev.fd = ev.v THEN {} ELSE {V("boolean-not-recovered")})

ConstViol(ev) ==
    IF ev.ok = 0 THEN {V("constant-rejected")}
    ELSE (IF ev.v = InfMark THEN {} ELSE IF ev.mt = ev.v THEN {} ELSE {V("constant-through-MT-forest")}) \cup
         (IF ev.evp = ev.v THEN {} ELSE {V("constant-through-EV+-forest")})

Step ==
    /\ l <= Len(TraceLog) /\ ~done
    /\ LET ev == TraceLog[l] IN
       viol' = viol \cup
         (CASE ev.e = "CInt"   -> IntViol(ev)
            [] ev.e = "CReal"  -> RealViol(ev)
            [] ev.e = "CBool"  -> BoolViol(ev)
            [] ev.e = "CConst" -> ConstViol(ev)
            [] ev.e = "Crash"  -> {[p |-> "CRASH", l |-> l, k |-> ev.cmd]}
            [] OTHER -> {})
    /\ l' = l + 1 /\ done' = FALSE

Finish ==
    /\ l = Len(TraceLog) + 1 /\ ~done
    /\ PrintT(<<"RESULT", ToJson([lines |-> Len(TraceLog), viol |-> viol])>>)
    /\ done' = TRUE /\ UNCHANGED <<l, viol>>

TraceInit == l = 1 /\ viol = {} /\ done = FALSE
TraceSpec == TraceInit /\ [][Step \/ Finish]_cvars
=============================================================================
