------------------------------- MODULE MddFun -------------------------------
(***************************************************************************)
(* Denotational layer of the MEDDLY specification.                         *)
(*                                                                         *)
(* A decision-diagram edge *is* the function it denotes: a finite table    *)
(* from the points of the domain to values.  Every operator below is the   *)
(* mathematical (pointwise / relational / fixed-point) definition of one   *)
(* library operation on such tables.  Nothing here knows about nodes.      *)
(*                                                                         *)
(* Domain.  A domain has K variables; level k (1 = bottom ... K = top) has *)
(* size sizes[k] >= 2.  A set forest ranges over assignments (x_1..x_K); a *)
(* relation forest over pairs (x, x').  Both are treated uniformly as      *)
(* functions over a sequence of *digits* ds (bottom-up):                   *)
(*    set:       ds = sizes                                                *)
(*    relation:  ds = <<s1, s1, s2, s2, ...>>, position 2k-1 = x'_k,       *)
(*               position 2k = x_k  (x'_k sits just below x_k).            *)
(* The table index of a point is 1 + its rank with the top digit most      *)
(* significant - which is the order in which the library's iterator        *)
(* enumerates assignments.                                                 *)
(*                                                                         *)
(* Values.  Booleans are 0/1.  Integers are TLC integers.  +infinity (EV+) *)
(* is the reserved integer Inf = 2^30, larger than every proper value.     *)
(* Reals live on a dyadic grid: the integer v stands for v / 64.  OffGrid  *)
(* marks a real that left the grid (or an integer out of TLC range); an    *)
(* operator that meets it answers OffGrid and checks skip that point.      *)
(***************************************************************************)
EXTENDS Integers, Sequences, FiniteSets, TLC

Inf     == 1073741824
OffGrid == 1073741825
RealOne == 64           \* the real number 1.0 on the grid

Max2(a, b) == IF a >= b THEN a ELSE b
Min2(a, b) == IF a <= b THEN a ELSE b
Abs(a)     == IF a < 0 THEN -a ELSE a

-----------------------------------------------------------------------------
(* Domain arithmetic *)

\* digit sizes, bottom-up
DS(sizes, rel) ==
    IF rel THEN [p \in 1..(2*Len(sizes)) |-> sizes[(p+1) \div 2]]
           ELSE sizes

RECURSIVE ProdUpTo(_, _)
ProdUpTo(ds, n) == IF n = 0 THEN 1 ELSE ds[n] * ProdUpTo(ds, n-1)

NPoints(ds) == ProdUpTo(ds, Len(ds))

\* weight of digit p in the rank
Weights(ds) == [p \in 1..Len(ds) |-> ProdUpTo(ds, p-1)]

\* digit p of table index i (1-based)
Digit(i, p, ds, W) == ((i-1) \div W[p]) % ds[p]

\* positions of the unprimed / primed digit of variable k in a relation
UPos(k) == 2*k
PPos(k) == 2*k - 1

SumOver(n, F(_)) == LET s[k \in 0..n] == IF k = 0 THEN 0 ELSE F(k) + s[k-1] IN s[n]

DontCare   == -1
DontChange == -2

(***************************************************************************)
(* Minterms.  A set minterm is a sequence a[1..K]; a relation minterm is   *)
(* a[1..2K] = u_1..u_K p_1..p_K.  -1 = don't care; -2 (primed only) =      *)
(* don't change: the primed variable equals the unprimed one.              *)
(***************************************************************************)
Matches(i, a, K, rel, ds, W) ==
    IF rel
    THEN \A k \in 1..K :
            /\ (a[k] = DontCare \/ a[k] = Digit(i, UPos(k), ds, W))
            /\ \/ a[K+k] = DontCare
               \/ (a[K+k] = DontChange /\ Digit(i, PPos(k), ds, W) = Digit(i, UPos(k), ds, W))
               \/ a[K+k] = Digit(i, PPos(k), ds, W)
    ELSE \A k \in 1..K : a[k] = DontCare \/ a[k] = Digit(i, k, ds, W)

SetMax(S) == LET x == CHOOSE y \in S : \A z \in S : y >= z IN x
SetMin(S) == LET x == CHOOSE y \in S : \A z \in S : y <= z IN x

\* mts: sequence of [v |-> value, a |-> minterm]
\* mode "MAX": maximum of matching values (deflt elsewhere; precondition:
\* deflt <= every value), "MIN": minimum (precondition deflt >= every
\* value), "ONE": single minterm.
CollFn(mode, deflt, mts, sizes, rel) ==
    LET ds == DS(sizes, rel)
        W  == Weights(ds)
        K  == Len(sizes)
    IN  [i \in 1..NPoints(ds) |->
            LET M == {m \in 1..Len(mts) : Matches(i, mts[m].a, K, rel, ds, W)}
            IN  IF M = {} THEN deflt
                ELSE IF mode = "MIN" THEN SetMin({mts[m].v : m \in M})
                ELSE SetMax({mts[m].v : m \in M})]

ConstFn(v, sizes, rel) == [i \in 1..NPoints(DS(sizes, rel)) |-> v]

\* f(x) = terms[x_vh] (unprimed) or terms[x'_vh] (primed); terms = <<>> means
\* terms[j] = j (as a value of the forest's range: for reals, j * 64).
VarFn(vh, primed, terms, unit, sizes, rel) ==
    LET ds == DS(sizes, rel)
        W  == Weights(ds)
        p  == IF rel THEN (IF primed THEN PPos(vh) ELSE UPos(vh)) ELSE vh
    IN  [i \in 1..NPoints(ds) |->
            LET j == Digit(i, p, ds, W)
            IN IF terms = <<>> THEN j * unit ELSE terms[j+1]]

-----------------------------------------------------------------------------
(* Relation index <-> pair of set indexes *)

RECURSIVE SumDigits(_, _, _, _, _, _)
\* rank (0-based) in the set domain of the unprimed (un=TRUE) or primed part
\* of relation index i
SumDigits(i, k, ds, W, Ws, un) ==
    IF k = 0 THEN 0
    ELSE Digit(i, IF un THEN UPos(k) ELSE PPos(k), ds, W) * Ws[k]
         + SumDigits(i, k-1, ds, W, Ws, un)

\* table of pairs: RelPairs(sizes)[i] = <<from index, to index>> (1-based set indexes)
RelPairs(sizes) ==
    LET K  == Len(sizes)
        ds == DS(sizes, TRUE)
        W  == Weights(ds)
        Ws == Weights(sizes)
    IN  [i \in 1..NPoints(ds) |->
            << 1 + SumDigits(i, K, ds, W, Ws, TRUE),
               1 + SumDigits(i, K, ds, W, Ws, FALSE) >>]

-----------------------------------------------------------------------------
(* Boolean set algebra (C04) *)

UnionFn(a, b) == [i \in DOMAIN a |-> IF a[i] = 1 \/ b[i] = 1 THEN 1 ELSE 0]
InterFn(a, b) == [i \in DOMAIN a |-> IF a[i] = 1 /\ b[i] = 1 THEN 1 ELSE 0]
DiffFn(a, b)  == [i \in DOMAIN a |-> IF a[i] = 1 /\ b[i] = 0 THEN 1 ELSE 0]
ComplFn(a)    == [i \in DOMAIN a |-> 1 - a[i]]

\* cross product of two sets over the same domain: relation {(x,y): x in a, y in b}
CrossFn(a, b, sizes) ==
    LET K   == Len(sizes)
        ds  == DS(sizes, TRUE)
        W   == Weights(ds)
        Ws  == Weights(sizes)
        N   == NPoints(ds)
        from(i) == 1 + SumDigits(i, K, ds, W, Ws, TRUE)
        to(i)   == 1 + SumDigits(i, K, ds, W, Ws, FALSE)
    IN  [i \in 1..N |-> IF a[from(i)] = 1 /\ b[to(i)] = 1 THEN 1 ELSE 0]

-----------------------------------------------------------------------------
(* Scalar arithmetic with the conventions of C++ and of the library        *)

TruncDiv(a, b) ==  \* C++ integer division (truncation toward zero), b # 0
    IF (a >= 0 /\ b > 0) \/ (a <= 0 /\ b < 0) THEN Abs(a) \div Abs(b)
    ELSE -(Abs(a) \div Abs(b))

CRem(a, b) == a - b * TruncDiv(a, b)    \* C++ %, sign of the dividend

Bad(x) == x = OffGrid

\* error markers produced by scalar operators (all above OffGrid)
EDivZero == 1073741826
ESubInf  == 1073741827
EInfInf  == 1073741828
EOverflow == 1073741829
IsErrV(x) == x >= EDivZero
ErrName(x) == CASE x = EDivZero -> "DIVIDE_BY_ZERO"
                [] x = ESubInf  -> "SUBTRACT_INFINITY"
                [] x = EInfInf  -> "INFINITY_DIV_INFINITY"
                [] x = EOverflow -> "VALUE_OVERFLOW"
                [] OTHER        -> "?"

\* integers must stay where TLC (32 bit) and the trace encoding are exact
IntBound  == 536870912      \* 2^29
RealBound == 16777216       \* 2^24: k/64 with |k| < 2^24 is an exact float
Guard(x, real) ==
    IF real THEN (IF Abs(x) < RealBound THEN x ELSE OffGrid)
            ELSE (IF Abs(x) < IntBound THEN x ELSE OffGrid)

\* a multi-terminal integer forest stores integers in [-2^30, 2^30 - 1]; a product
\* outside that range cannot be made a terminal (both factors are on the grid)
IntMulOverflow(a, b) ==
    /\ a # 0 /\ b # 0
    /\ IF (a > 0) = (b > 0) THEN Abs(a) > (1073741823 \div Abs(b))
                            ELSE Abs(a) > (1073741824 \div Abs(b))

\* product without 32-bit overflow inside TLC
SafeMul(a, b) ==
    IF a = 0 \/ b = 0 THEN 0
    ELSE IF Abs(a) > (IntBound \div Abs(b)) THEN OffGrid
    ELSE a * b

(***************************************************************************)
(* Scalar binary operations.  cls is the value class of the forests:       *)
(*   "I"  multi-terminal integer        "R"  multi-terminal real (1/64)    *)
(*   "P"  EV+ integer with +infinity    "T"  EV* real (1/64)               *)
(***************************************************************************)
IsReal(cls) == cls \in {"R", "T"}

\* (operands are below 2^30 in absolute value, so a + b and a - b are exact in TLC)
IntOutOfRange(x) == x > 1073741823 \/ x < -1073741824

ScPlus(cls, a, b) ==
    IF cls = "P" /\ (a = Inf \/ b = Inf) THEN Inf
    ELSE IF cls = "I" /\ IntOutOfRange(a + b) THEN EOverflow
    ELSE Guard(a + b, IsReal(cls))

ScMinus(cls, a, b) ==
    IF cls = "P" /\ b = Inf THEN ESubInf
    ELSE IF cls = "P" /\ a = Inf THEN Inf
    ELSE IF cls = "I" /\ IntOutOfRange(a - b) THEN EOverflow
    ELSE Guard(a - b, IsReal(cls))

ScMult(cls, a, b) ==
    IF cls = "P" /\ (a = Inf \/ b = Inf)
    THEN (IF a = 0 \/ b = 0 THEN OffGrid ELSE Inf)     \* 0 * infinity: not documented
    ELSE IF IsReal(cls)
         THEN LET p == SafeMul(a, b)
              IN IF p = OffGrid THEN OffGrid
                 ELSE IF p % 64 # 0 THEN OffGrid ELSE Guard(TruncDiv(p, 64), TRUE)
         ELSE IF cls = "I" /\ IntMulOverflow(a, b) THEN EOverflow
         ELSE LET p == SafeMul(a, b) IN IF p = OffGrid THEN OffGrid ELSE Guard(p, FALSE)

ScDiv(cls, a, b) ==
    IF cls = "P" /\ b = Inf THEN (IF a = Inf THEN EInfInf ELSE 0)
    ELSE IF b = 0 THEN EDivZero
    ELSE IF cls = "P" /\ a = Inf THEN Inf
    ELSE IF IsReal(cls)
         THEN LET n == SafeMul(a, 64)
              IN IF n = OffGrid THEN OffGrid
                 ELSE IF CRem(n, b) # 0 THEN OffGrid ELSE Guard(TruncDiv(n, b), TRUE)
         ELSE TruncDiv(a, b)

ScMod(cls, a, b) ==
    IF cls = "P" /\ b = Inf THEN (IF a = Inf THEN EInfInf ELSE a)
    ELSE IF b = 0 THEN EDivZero
    ELSE IF cls = "P" /\ a = Inf THEN Inf
    ELSE CRem(a, b)

\* negatives stand for "infinite distance"
ScDistMin(a, b) ==
    IF (a < 0) = (b < 0) THEN Min2(a, b)
    ELSE IF a < 0 THEN b ELSE a

ScBin(op, cls, a, b) ==
    CASE op = "PLUS"     -> ScPlus(cls, a, b)
      [] op = "MINUS"    -> ScMinus(cls, a, b)
      [] op = "MULTIPLY" -> ScMult(cls, a, b)
      [] op = "DIVIDE"   -> ScDiv(cls, a, b)
      [] op = "MODULO"   -> ScMod(cls, a, b)
      [] op = "MAXIMUM"  -> Max2(a, b)
      [] op = "MINIMUM"  -> Min2(a, b)
      [] op = "DIST_MIN" -> ScDistMin(a, b)

ScCmp(op, a, b) ==
    CASE op = "EQUAL"              -> a = b
      [] op = "NOT_EQUAL"          -> a # b
      [] op = "LESS_THAN"          -> a < b
      [] op = "LESS_THAN_EQUAL"    -> a <= b
      [] op = "GREATER_THAN"       -> a > b
      [] op = "GREATER_THAN_EQUAL" -> a >= b

ArithOps == {"PLUS", "MINUS", "MULTIPLY", "DIVIDE", "MODULO", "MAXIMUM", "MINIMUM", "DIST_MIN"}
CmpOps   == {"EQUAL", "NOT_EQUAL", "LESS_THAN", "LESS_THAN_EQUAL", "GREATER_THAN", "GREATER_THAN_EQUAL"}

\* pointwise lifting; a point whose operand is OffGrid stays OffGrid
ArithFn(op, cls, f, g) ==
    [i \in DOMAIN f |-> IF Bad(f[i]) \/ Bad(g[i]) THEN OffGrid ELSE ScBin(op, cls, f[i], g[i])]

\* one is the value "true" takes in the result forest (1, or 64 for reals)
CmpFn(op, f, g, one) ==
    [i \in DOMAIN f |-> IF Bad(f[i]) \/ Bad(g[i]) THEN OffGrid
                        ELSE IF ScCmp(op, f[i], g[i]) THEN one ELSE 0]

ErrsOf(fn) == {ErrName(fn[i]) : i \in {j \in DOMAIN fn : IsErrV(fn[j])}}

(***************************************************************************)
(* Canonical size.  For a function over a *set* domain the number of nodes *)
(* of its reduced diagram is determined by the function alone:             *)
(*   quasi-reduced : one node at level k per distinct cofactor over the    *)
(*                   levels 1..k that is not identically transparent       *)
(*   fully-reduced : ... and that depends on the variable at level k       *)
(* (edge-valued: cofactors are compared after normalisation, i.e. after    *)
(* subtracting their minimum).  f is the table by rank, level 1 fastest.   *)
(***************************************************************************)
BlocksAt(f, ds, k) ==
    LET B == ProdUpTo(ds, k)
    IN {SubSeq(f, u * B + 1, (u + 1) * B) : u \in 0..((Len(f) \div B) - 1)}

NormEVP(b) ==
    LET fin == {b[i] : i \in {j \in DOMAIN b : b[j] # Inf}}
    IN IF fin = {} THEN b
       ELSE LET m == SetMin(fin) IN [i \in DOMAIN b |-> IF b[i] = Inf THEN Inf ELSE b[i] - m]

DependsOnTop(b, ds, k) ==
    LET B1 == ProdUpTo(ds, k - 1)
    IN \E j \in 1..(ds[k] - 1) : SubSeq(b, j * B1 + 1, (j + 1) * B1) # SubSeq(b, 1, B1)

CanonSize(f, ds, evp, full) ==
    LET transparent == IF evp THEN Inf ELSE 0
        nodesAt(k) ==
            LET bs0 == BlocksAt(f, ds, k)
                bs  == IF evp THEN {NormEVP(b) : b \in bs0} ELSE bs0
            IN Cardinality({b \in bs : (\E i \in DOMAIN b : b[i] # transparent)
                                        /\ (full => DependsOnTop(b, ds, k))})
    IN SumOver(Len(ds), nodesAt)

(***************************************************************************)
(* Canonical size of a multi-terminal *relation* diagram.  Positions of     *)
(* the table: 2k-1 = primed variable of level k, 2k = unprimed.  C is the   *)
(* set of non-zero cofactors at the unprimed level k (all variables above   *)
(* fixed); H(c, i) the cofactor below unprimed index i (a function of the   *)
(* primed variable and the lower levels); G(h, j) the cofactor below primed *)
(* index j.                                                                 *)
(*   quasi-reduced    : a node per non-zero cofactor, unprimed and primed   *)
(*   fully-reduced    : ... that depends on its top variable                *)
(*   identity-reduced : a primed node reached through index i is dropped    *)
(*                      if its only non-zero child is at index i; an        *)
(*                      unprimed node is dropped if all its children (after *)
(*                      that elimination) are the same edge                 *)
(***************************************************************************)
RelCanonSize(f, ds, rule) ==
    LET IsZero(b) == \A x \in DOMAIN b : b[x] = 0
        Sub(b, w, i) == SubSeq(b, i * w + 1, (i + 1) * w)
        atLevel(k) ==
            LET Wp == ProdUpTo(ds, 2 * k - 1)
                Wl == ProdUpTo(ds, 2 * k - 2)
                s  == ds[2 * k]
                C  == {c \in BlocksAt(f, ds, 2 * k) : ~IsZero(c)}
                H(c, i) == Sub(c, Wp, i)
                G(h, j) == Sub(h, Wl, j)
                Single(h, i) == \A j \in 0..(s - 1) : j # i => IsZero(G(h, j))
                Desc(c, i) == LET h == H(c, i)
                              IN IF IsZero(h) THEN <<"Z", << >> >>
                                 ELSE IF Single(h, i) THEN <<"L", G(h, i)>>
                                 ELSE <<"P", h>>
                uNodes == CASE rule = "Q" -> C
                            [] rule = "F" -> {c \in C : \E i \in 1..(s - 1) : H(c, i) # H(c, 0)}
                            [] OTHER      -> {c \in C : \E i \in 1..(s - 1) : Desc(c, i) # Desc(c, 0)}
                pAll == {<<H(c, i), i>> : c \in C, i \in 0..(s - 1)}
                pLive == {q \in pAll : ~IsZero(q[1])}
                pNodes == CASE rule = "Q" -> {q[1] : q \in pLive}
                            [] rule = "F" -> {q[1] : q \in {r \in pLive : \E j \in 1..(s - 1) : G(r[1], j) # G(r[1], 0)}}
                            [] OTHER      -> {q[1] : q \in {r \in pLive : ~Single(r[1], r[2])}}
            IN Cardinality(uNodes) + Cardinality(pNodes)
    IN SumOver(Len(ds) \div 2, atLevel)

(* Unary maps *)
DistIncFn(f) == [i \in DOMAIN f |-> IF Bad(f[i]) THEN OffGrid
                                    ELSE IF f[i] >= 0 THEN Guard(f[i] + 1, FALSE) ELSE f[i]]

\* user-defined unary catalogue of the driver (harness/mdrive.cc uu_*);
\* real: values in units of 1/64; bres: result forest is boolean
UserSc(id, real, x) ==
    LET unit == IF real THEN 64 ELSE 1 IN
    CASE id = "U_ABS"   -> IF x = Inf THEN Inf ELSE Abs(x)
      [] id = "U_NEG"   -> IF x = Inf THEN Inf ELSE -x
      [] id = "U_EVEN"  -> IF x = Inf THEN 0 ELSE IF x % (2 * unit) = 0 THEN 1 ELSE 0
      [] id = "U_INC3"  -> IF x = Inf THEN Inf ELSE Guard(x + 3 * unit, real)
      [] id = "U_SQ"    -> IF x = Inf THEN Inf ELSE ScMult(IF real THEN "R" ELSE "I", x, x)
      [] id = "U_ISPOS" -> IF x = Inf THEN 1 ELSE IF x > 0 THEN 1 ELSE 0

UserOps == {"U_ABS", "U_NEG", "U_EVEN", "U_INC3", "U_SQ", "U_ISPOS"}
UserBoolOps == {"U_EVEN", "U_ISPOS"}

UserFn(id, real, f) == [i \in DOMAIN f |-> IF Bad(f[i]) THEN OffGrid ELSE UserSc(id, real, f[i])]

\* range queries: largest / smallest value taken (none if some point is unknown)
MaxRange(f) == IF \E i \in DOMAIN f : Bad(f[i]) THEN OffGrid ELSE SetMax({f[i] : i \in DOMAIN f})
MinRange(f) == IF \E i \in DOMAIN f : Bad(f[i]) THEN OffGrid ELSE SetMin({f[i] : i \in DOMAIN f})

-----------------------------------------------------------------------------
(* Relations: one-step images, products, reachability (C08, C09, C20) *)

\* boolean post-image: states with an incoming edge from a member of S
PostImageB(S, R, pairs) ==
    [y \in DOMAIN S |-> IF \E i \in DOMAIN R : R[i] # 0 /\ pairs[i][2] = y /\ S[pairs[i][1]] # 0 THEN 1 ELSE 0]
PreImageB(S, R, pairs) ==
    [x \in DOMAIN S |-> IF \E i \in DOMAIN R : R[i] # 0 /\ pairs[i][1] = x /\ S[pairs[i][2]] # 0 THEN 1 ELSE 0]

\* distance images.  "reached" tells which operand values are distances
\* (MT: d >= 0; EV+: d # Inf); none is the value for "no such neighbour"
DistImage(fwd, D, R, pairs, evp) ==
    LET isd(v) == IF evp THEN v # Inf ELSE v >= 0
        none   == IF evp THEN Inf ELSE -1
    IN [y \in DOMAIN D |->
          LET src == {i \in DOMAIN R : /\ R[i] # 0
                                       /\ pairs[i][IF fwd THEN 2 ELSE 1] = y
                                       /\ isd(D[pairs[i][IF fwd THEN 1 ELSE 2]])}
          IN IF src = {} THEN none
             ELSE 1 + SetMin({D[pairs[i][IF fwd THEN 1 ELSE 2]] : i \in src})]

\* vector-matrix product  y[j] = SUM_i x[i] * M[i,j]   (fwd)
\* matrix-vector product  y[i] = SUM_j M[i,j] * x[j]   (~fwd)
RECURSIVE SumSeq(_, _)
SumSeq(s, n) == IF n = 0 THEN 0 ELSE
                LET r == SumSeq(s, n-1) IN IF Bad(r) \/ Bad(s[n]) THEN OffGrid ELSE r + s[n]

VecMat(fwd, x, M, pairs, real) ==
    [y \in DOMAIN x |->
        LET idx  == {i \in DOMAIN M : pairs[i][IF fwd THEN 2 ELSE 1] = y}
            term(i) == LET xv == x[pairs[i][IF fwd THEN 1 ELSE 2]] IN
                       IF Bad(xv) \/ Bad(M[i]) THEN OffGrid ELSE ScMult(IF real THEN "R" ELSE "I", xv, M[i])
            RECURSIVE Acc(_)
            Acc(S) == IF S = {} THEN 0
                      ELSE LET i == CHOOSE j \in S : TRUE
                               r == Acc(S \ {i})
                               t == term(i)
                           IN IF Bad(r) \/ Bad(t) THEN OffGrid ELSE r + t
            tot == Acc(idx)
        IN IF Bad(tot) THEN OffGrid ELSE Guard(tot, real)]

\* least fixed point: states reachable from S in zero or more steps
RECURSIVE ReachB(_, _, _, _)
ReachB(fwd, S, R, pairs) ==
    LET img  == IF fwd THEN PostImageB(S, R, pairs) ELSE PreImageB(S, R, pairs)
        next == [x \in DOMAIN S |-> IF S[x] # 0 \/ img[x] # 0 THEN 1 ELSE 0]
    IN IF next = S THEN S ELSE ReachB(fwd, next, R, pairs)

\* shortest distances: D0 gives the initial distances (MT: negative = not
\* initial; EV+: Inf = not initial)
RECURSIVE ReachD(_, _, _, _, _)
ReachD(fwd, D, R, pairs, evp) ==
    LET img  == DistImage(fwd, D, R, pairs, evp)
        next == [x \in DOMAIN D |->
                    IF evp THEN Min2(D[x], img[x]) ELSE ScDistMin(D[x], img[x])]
    IN IF next = D THEN D ELSE ReachD(fwd, next, R, pairs, evp)

\* negative values all mean "unreachable" in MT distance functions
NegClass(f) == [i \in DOMAIN f |-> IF f[i] < 0 THEN -1 ELSE f[i]]

-----------------------------------------------------------------------------
(* Enumeration and counting (C11), index sets (C15) *)

\* does table index i match the iterator mask?  (same conventions as minterms)
\* the sequence of <<rank (0-based), value>> an iterator must produce
IterSeq(f, transparent, mask, sizes, rel) ==
    LET ds == DS(sizes, rel)
        W  == Weights(ds)
        K  == Len(sizes)
        keep(i) == f[i] # transparent /\ (mask = << >> \/ Matches(i, mask, K, rel, ds, W))
        RECURSIVE Build(_)
        Build(i) == IF i > Len(f) THEN << >>
                    ELSE IF keep(i) THEN << <<i-1, f[i]>> >> \o Build(i+1) ELSE Build(i+1)
    IN Build(1)

CardFn(f, transparent) == Cardinality({i \in DOMAIN f : f[i] # transparent})

\* index set of a boolean set: members numbered in lexicographic order
IndexSetFn(S) ==
    [i \in DOMAIN S |-> IF S[i] = 0 THEN Inf
                        ELSE Cardinality({j \in 1..(i-1) : S[j] # 0})]

\* rank (0-based) of the member with index n, or -1
ElemOf(ix, n) ==
    LET M == {i \in DOMAIN ix : ix[i] = n} IN
    IF n < 0 \/ M = {} THEN -1 ELSE (CHOOSE i \in M : TRUE) - 1

-----------------------------------------------------------------------------
(* Variable reordering (C13).  l2v[k] = variable now at level k.  A table  *)
(* is always indexed by *level* positions (the library's minterms are by   *)
(* level), so after reordering from order o to order n the value at        *)
(* level-assignment a' is the old value at the assignment a with           *)
(* a[level of v in o] = a'[level of v in n].                               *)
(***************************************************************************)
PermuteFn(f, oldl2v, newl2v, oldsizes, rel) ==
    LET K     == Len(oldsizes)
        \* size of each variable
        vsize == [v \in 1..K |-> oldsizes[CHOOSE k \in 1..K : oldl2v[k] = v]]
        newsizes == [k \in 1..K |-> vsize[newl2v[k]]]
        dso == DS(oldsizes, rel)   Wo == Weights(dso)
        dsn == DS(newsizes, rel)   Wn == Weights(dsn)
        oldlevel(v) == CHOOSE k \in 1..K : oldl2v[k] = v
        \* index in the old table of the point that new index i denotes
        src(i) ==
            IF rel
            THEN 1 + SumOver(K, LAMBDA k :
                        Digit(i, UPos(k), dsn, Wn) * Wo[UPos(oldlevel(newl2v[k]))]
                      + Digit(i, PPos(k), dsn, Wn) * Wo[PPos(oldlevel(newl2v[k]))])
            ELSE 1 + SumOver(K, LAMBDA k : Digit(i, k, dsn, Wn) * Wo[oldlevel(newl2v[k])])
    IN [i \in 1..NPoints(dsn) |-> f[src(i)]]

=============================================================================
