------------------------------- MODULE MddFun -------------------------------
(***************************************************************************)
(* Denotational layer of the MEDDLY specification.                         *)
(*                                                                         *)
(* A decision-diagram edge *is* the function it denotes: a finite table    *)
(* from the points of the domain to values.  Every operator below is the   *)
(* mathematical (pointwise / relational / fixed-point) definition of one   *)
(* library operation on such tables.  Nothing here knows about nodes.      *)
(*                                                                         *)
(* Domain.  A domain has K variables; level k (1 = bottom ... K = top) has *)
(* size sizes[k] >= 2.  A set forest ranges over assignments (x_1..x_K); a *)
(* relation forest over pairs (x, x').  Both are treated uniformly as      *)
(* functions over a sequence of *digits* ds (bottom-up):                   *)
(*    set:       ds = sizes                                                *)
(*    relation:  ds = <<s1, s1, s2, s2, ...>>, position 2k-1 = x'_k,       *)
(*               position 2k = x_k  (x'_k sits just below x_k).            *)
(* The table index of a point is 1 + its rank with the top digit most      *)
(* significant - which is the order in which the library's iterator        *)
(* enumerates assignments.                                                 *)
(*                                                                         *)
(* Values.  Booleans are 0/1.  Integers are TLC integers.  +infinity (EV+) *)
(* is the reserved integer Inf = 2^30, larger than every proper value.     *)
(* Reals live on a dyadic grid: the integer v stands for v / 64.  OffGrid  *)
(* marks a real that left the grid (or an integer out of TLC range); an    *)
(* operator that meets it answers OffGrid and checks skip that point.      *)
(***************************************************************************)
EXTENDS Integers, Sequences, FiniteSets, TLC

Inf     == 1073741824
OffGrid == 1073741825
RealOne == 64           \* the real number 1.0 on the grid

Max2(a, b) == IF a >= b THEN a ELSE b
Min2(a, b) == IF a <= b THEN a ELSE b
Abs(a)     == IF a < 0 THEN -a ELSE a

-----------------------------------------------------------------------------
(* Domain arithmetic *)

\* digit sizes, bottom-up
DS(sizes, rel) ==
    IF rel THEN [p \in 1..(2*Len(sizes)) |-> sizes[(p+1) \div 2]]
           ELSE sizes

RECURSIVE ProdUpTo(_, _)
ProdUpTo(ds, n) == IF n = 0 THEN 1 ELSE ds[n] * ProdUpTo(ds, n-1)

NPoints(ds) == ProdUpTo(ds, Len(ds))

\* weight of digit p in the rank
Weights(ds) == [p \in 1..Len(ds) |-> ProdUpTo(ds, p-1)]

\* digit p of table index i (1-based)
Digit(i, p, ds, W) == ((i-1) \div W[p]) % ds[p]

\* positions of the unprimed / primed digit of variable k in a relation
UPos(k) == 2*k
PPos(k) == 2*k - 1

DontCare   == -1
DontChange == -2

(***************************************************************************)
(* Minterms.  A set minterm is a sequence a[1..K]; a relation minterm is   *)
(* a[1..2K] = u_1..u_K p_1..p_K.  -1 = don't care; -2 (primed only) =      *)
(* don't change: the primed variable equals the unprimed one.              *)
(***************************************************************************)
Matches(i, a, K, rel, ds, W) ==
    IF rel
    THEN \A k \in 1..K :
            /\ (a[k] = DontCare \/ a[k] = Digit(i, UPos(k), ds, W))
            /\ \/ a[K+k] = DontCare
               \/ (a[K+k] = DontChange /\ Digit(i, PPos(k), ds, W) = Digit(i, UPos(k), ds, W))
               \/ a[K+k] = Digit(i, PPos(k), ds, W)
    ELSE \A k \in 1..K : a[k] = DontCare \/ a[k] = Digit(i, k, ds, W)

SetMax(S) == LET x == CHOOSE y \in S : \A z \in S : y >= z IN x
SetMin(S) == LET x == CHOOSE y \in S : \A z \in S : y <= z IN x

\* mts: sequence of [v |-> value, a |-> minterm]
\* mode "MAX": maximum of matching values (deflt elsewhere; precondition:
\* deflt <= every value), "MIN": minimum (precondition deflt >= every
\* value), "ONE": single minterm.
CollFn(mode, deflt, mts, sizes, rel) ==
    LET ds == DS(sizes, rel)
        W  == Weights(ds)
        K  == Len(sizes)
    IN  [i \in 1..NPoints(ds) |->
            LET M == {m \in 1..Len(mts) : Matches(i, mts[m].a, K, rel, ds, W)}
            IN  IF M = {} THEN deflt
                ELSE IF mode = "MIN" THEN SetMin({mts[m].v : m \in M})
                ELSE SetMax({mts[m].v : m \in M})]

ConstFn(v, sizes, rel) == [i \in 1..NPoints(DS(sizes, rel)) |-> v]

\* f(x) = terms[x_vh] (unprimed) or terms[x'_vh] (primed); terms = <<>> means
\* terms[j] = j (as a value of the forest's range: for reals, j * 64).
VarFn(vh, primed, terms, unit, sizes, rel) ==
    LET ds == DS(sizes, rel)
        W  == Weights(ds)
        p  == IF rel THEN (IF primed THEN PPos(vh) ELSE UPos(vh)) ELSE vh
    IN  [i \in 1..NPoints(ds) |->
            LET j == Digit(i, p, ds, W)
            IN IF terms = <<>> THEN j * unit ELSE terms[j+1]]

-----------------------------------------------------------------------------
(* Relation index <-> pair of set indexes *)

RECURSIVE SumDigits(_, _, _, _, _, _)
\* rank (0-based) in the set domain of the unprimed (un=TRUE) or primed part
\* of relation index i
SumDigits(i, k, ds, W, Ws, un) ==
    IF k = 0 THEN 0
    ELSE Digit(i, IF un THEN UPos(k) ELSE PPos(k), ds, W) * Ws[k]
         + SumDigits(i, k-1, ds, W, Ws, un)

\* table of pairs: RelPairs(sizes)[i] = <<from index, to index>> (1-based set indexes)
RelPairs(sizes) ==
    LET K  == Len(sizes)
        ds == DS(sizes, TRUE)
        W  == Weights(ds)
        Ws == Weights(sizes)
    IN  [i \in 1..NPoints(ds) |->
            << 1 + SumDigits(i, K, ds, W, Ws, TRUE),
               1 + SumDigits(i, K, ds, W, Ws, FALSE) >>]

-----------------------------------------------------------------------------
(* Boolean set algebra (C04) *)

UnionFn(a, b) == [i \in DOMAIN a |-> IF a[i] = 1 \/ b[i] = 1 THEN 1 ELSE 0]
InterFn(a, b) == [i \in DOMAIN a |-> IF a[i] = 1 /\ b[i] = 1 THEN 1 ELSE 0]
DiffFn(a, b)  == [i \in DOMAIN a |-> IF a[i] = 1 /\ b[i] = 0 THEN 1 ELSE 0]
ComplFn(a)    == [i \in DOMAIN a |-> 1 - a[i]]

\* cross product of two sets over the same domain: relation {(x,y): x in a, y in b}
CrossFn(a, b, sizes) ==
    LET K   == Len(sizes)
        ds  == DS(sizes, TRUE)
        W   == Weights(ds)
        Ws  == Weights(sizes)
        N   == NPoints(ds)
        from(i) == 1 + SumDigits(i, K, ds, W, Ws, TRUE)
        to(i)   == 1 + SumDigits(i, K, ds, W, Ws, FALSE)
    IN  [i \in 1..N |-> IF a[from(i)] = 1 /\ b[to(i)] = 1 THEN 1 ELSE 0]

-----------------------------------------------------------------------------
(* Scalar arithmetic with the conventions of C++ and of the library        *)

TruncDiv(a, b) ==  \* C++ integer division (truncation toward zero), b # 0
    IF (a >= 0 /\ b > 0) \/ (a <= 0 /\ b < 0) THEN Abs(a) \div Abs(b)
    ELSE -(Abs(a) \div Abs(b))

CRem(a, b) == a - b * TruncDiv(a, b)    \* C++ %, sign of the dividend

Bad(x) == x = OffGrid

=============================================================================
