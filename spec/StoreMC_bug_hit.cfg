SPECIFICATION Spec
CONSTANTS
  H = 3
  K = 2
  S = 2
  Rule = "F"
  Pess = TRUE
  NSlots = 2
  MaxCT = 1
  Bug = "hit-ignores-dead-nodes"
INVARIANT Inv
PROPERTY HitNeverDead
