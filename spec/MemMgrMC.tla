------------------------------ MODULE MemMgrMC ------------------------------
(***************************************************************************)
(* Bounded model of a hole-managing allocator over an arena of A slots     *)
(* (slot 0 is never handed out: handle 0 means failure).  Free space is    *)
(* whatever no live chunk covers; a request may be placed in any free gap  *)
(* that is large enough (first fit, best fit, grid or heap order are all   *)
(* refinements), possibly rounding the size up to fill a gap that would    *)
(* leave an unusably small remainder.                                      *)
(***************************************************************************)
EXTENDS MemMgr, TLC

CONSTANTS A, Ids, MinSize, MaxReq

H(x) == <<0, 0, x>>

FreeAt(x, n) == /\ x >= 1 /\ x + n <= A + 1
                /\ \A j \in DOMAIN live : Disjoint(H(x), n, live[j].h, live[j].n)

Next ==
    \/ \E id \in Ids, want \in MinSize..MaxReq, x \in 1..A, extra \in 0..(MinSize - 1) :
            FreeAt(x, want + extra) /\ Request(id, want, H(x), want + extra)
    \/ \E id \in Ids : Recycle(id)

MCSpec == Init /\ [][Next]_live

\* every live chunk lies inside the arena, none contains slot 0
InArena == \A j \in DOMAIN live : live[j].h[3] >= 1 /\ live[j].h[3] + live[j].n <= A + 1 /\ live[j].n >= MinSize

\* used + free = arena
UsedSlots == UNION {{live[j].h[3] + k : k \in 0..(live[j].n - 1)} : j \in DOMAIN live}
Conservation == Cardinality(UsedSlots) = Cardinality(UNION {{<<j, k>> : k \in 1..live[j].n} : j \in DOMAIN live})

MCInv == NoOverlap /\ InArena /\ Conservation
=============================================================================
