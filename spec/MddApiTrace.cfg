SPECIFICATION TraceSpec
INVARIANT TraceInv
CHECK_DEADLOCK FALSE
