----------------------------- MODULE ReorderMC -----------------------------
(* Bounded instances of Reorder (the configuration file cannot hold tuples) *)
EXTENDS Reorder

VS23  == <<2, 3>>
VS32  == <<3, 2>>
VS232 == <<2, 3, 2>>
VS322 == <<3, 2, 2>>
=============================================================================
