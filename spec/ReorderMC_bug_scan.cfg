SPECIFICATION Spec
CONSTANTS
  VSizes <- VS23
  H = 10
  NR = 2
  Rule = "F"
  MaxSwaps = 2
  Bug = "scan_lsize"
INVARIANT Inv
CHECK_DEADLOCK FALSE
