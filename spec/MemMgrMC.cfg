SPECIFICATION MCSpec
CONSTANTS
  A = 10
  Ids = {1, 2, 3, 4}
  MinSize = 2
  MaxReq = 4
INVARIANT MCInv
