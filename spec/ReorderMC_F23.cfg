SPECIFICATION Spec
CONSTANTS
  VSizes <- VS23
  H = 10
  NR = 2
  Rule = "F"
  MaxSwaps = 2
  Bug = "none"
INVARIANT Inv
CHECK_DEADLOCK FALSE
