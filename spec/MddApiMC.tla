------------------------------ MODULE MddApiMC ------------------------------
(***************************************************************************)
(* Bounded instance of the API state machine for model checking (C16,      *)
(* C17): every order of initialise / create / use / destroy / clean up     *)
(* within ND domains, NF forests and NS edge slots, with two operations    *)
(* (a construction and a union) standing for "use", including every        *)
(* misuse the actions answer with an error step.                           *)
(***************************************************************************)
EXTENDS MddApi

CONSTANTS ND, NF, NS

DIds == 1..ND
FIds == 1..NF
SIds == 1..NS

OneMinterm == << [v |-> 1, a |-> <<0>>] >>

Next ==
    \/ Initialize
    \/ Cleanup
    \/ \E d \in DIds : d \notin DOMAIN doms /\ CreateDomain(d, <<2>>)
    \/ \E d \in DIds : DestroyDomain(d)
    \/ \E f \in FIds, d \in DIds, rel \in {FALSE} :
            f \notin DOMAIN fors /\ CreateForest(f, d, rel, "B", "MT", "F")
    \/ \E f \in FIds : DestroyForest(f)
    \/ \E s \in SIds, f \in FIds \cup {NoForest} : lib /\ s \notin DOMAIN edges /\ NewEdge(s, f)
    \/ \E s, t \in SIds : s \notin DOMAIN edges /\ CopyEdge(s, t)
    \/ \E s, t \in SIds : s # t /\ AssignEdge(s, t)
    \/ \E s \in SIds : DeleteEdge(s)
    \/ \E s \in SIds, f \in FIds \cup {NoForest} : lib /\ AttachEdge(s, f)
    \/ \E s \in SIds, f \in FIds : lib /\ f \in DOMAIN fors /\ BuildColl(s, f, "MAX", 0, OneMinterm)
    \/ \E r, a, b \in SIds : lib /\ {r, a, b} \subseteq DOMAIN edges /\ ApplyBinary("UNION", r, a, b)

MCSpec == Init /\ [][Next]_vars

\* C17: within one initialisation forest identifiers only grow
FidMonotone == [][(lib /\ lib') => nextFid' >= nextFid]_vars

\* C17: no two forests created in one initialisation share an identifier
\* (fid is recorded at creation; dead forests keep theirs)
FidNeverReused ==
    [][\A f \in DOMAIN fors' \ DOMAIN fors : \A g \in DOMAIN fors : (lib /\ fors[g].alive) => fors'[f].fid # fors[g].fid]_vars

\* C17: destroying a domain leaves the edges of forests of other domains alone
OtherDomainsUntouched ==
    [][\A d \in DIds :
         (d \in DOMAIN doms /\ doms[d].alive /\ d \in DOMAIN doms' /\ ~doms'[d].alive /\ lib') =>
            \A s \in DOMAIN edges :
                (edges[s].f # NoForest /\ fors[edges[s].f].d # d) => (s \in DOMAIN edges' /\ edges'[s] = edges[s])]_vars

\* C17: an edge attached to a forest is attached to a live forest
Inv == TypeOK /\ AttachedIsLive /\ FidUnique

=============================================================================
