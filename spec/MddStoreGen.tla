----------------------------- MODULE MddStoreGen -----------------------------
(***************************************************************************)
(* Behaviour generation from the store model (spec -> code direction).     *)
(* TLC simulates MddStore and records every public call together with what *)
(* the model predicts afterwards for every root edge: its function and the *)
(* number of nodes of its diagram.  Behaviours of D calls are printed as    *)
(* JSON; tools/plans.py turns each into a driver script (build, UNION,     *)
(* assignment, release, cache maintenance, each followed by `expect` lines) *)
(* that mdrive executes against the real library; the recorded trace is    *)
(* then validated by MddApiTrace (functions, expected node counts) and     *)
(* MddStoreTrace (structure, counts).                                      *)
(***************************************************************************)
EXTENDS MddStore, Json

CONSTANT D              \* calls per behaviour
VARIABLES hist, printed

NodeCountOf(d) == Cardinality(ReachableNodes(NodeTable(st), d))

\* what the model predicts after the step, per slot
Predict == [x \in Slots |-> [fn |-> ghost'[x], nc |-> Cardinality(ReachableNodes(NodeTable(st'), roots'[x]))]]

Rec(a, x, y, z, f) == [a |-> a, x |-> x, y |-> y, z |-> z, f |-> f, after |-> Predict]

GInit == Init /\ hist = << >> /\ printed = FALSE

GStep ==
    \/ \E x \in Slots : \E f \in {RandomElement(Fns)} :       \* one random function per slot keeps the call mix balanced
            Build(x, f) /\ hist' = Append(hist, Rec("build", x, 0, 0, f))
    \/ \E x, a, b \in Slots : Union(x, a, b) /\ hist' = Append(hist, Rec("union", x, a, b, << >>))
    \/ \E x, a \in Slots : CopyEdge(x, a) /\ hist' = Append(hist, Rec("assign", x, a, 0, << >>))
    \/ \E x \in Slots : Release(x) /\ hist' = Append(hist, Rec("release", x, 0, 0, << >>))
    \/ ClearCT /\ hist' = Append(hist, Rec("clearct", 0, 0, 0, << >>))
    \/ RemoveStales /\ hist' = Append(hist, Rec("rmstale", 0, 0, 0, << >>))

\* a behaviour of D calls is printed once and not extended further (the
\* simulation then starts a new random behaviour)
GNext ==
    \/ Len(hist) < D /\ GStep /\ UNCHANGED printed
    \/ Len(hist) = D /\ ~printed /\ PrintT(<<"BEHAVIOUR", ToJson(hist)>>)
        /\ printed' = TRUE /\ UNCHANGED <<svars, hist>>

GSpec == GInit /\ [][GNext]_<<svars, hist, printed>>

=============================================================================
