------------------------------- MODULE Reorder -------------------------------
(***************************************************************************)
(* Design-level model of variable reordering by adjacent swaps in a        *)
(* multi-terminal MDD forest (mtmdd_forest::swapAdjacentVariables), with   *)
(* variables of *different sizes*.                                         *)
(*                                                                         *)
(* The store is a table of nodes (level, children) addressed by handle;    *)
(* 0 and -1 are the terminals FALSE and TRUE.  `order[k]` is the variable  *)
(* at level k.  Users hold roots; the ghost variable `fn` records, per     *)
(* root, the function of the *variables* it denoted when it was built -    *)
(* which no reordering may change (C13).                                   *)
(*                                                                         *)
(* Swap(k) follows the code: the nodes of the upper level that do not       *)
(* depend on the lower variable are only relabelled; the lower level's      *)
(* nodes are relabelled upwards; every other upper node is rebuilt *in      *)
(* place* (its handle, hence every pointer to it, stays valid) from         *)
(* freshly reduced lower nodes, which are shared through the unique table.  *)
(*                                                                         *)
(* Bug = "scan_lsize" scans the first lsize children (instead of hsize)     *)
(* when deciding whether an upper node depends on the lower variable - the  *)
(* slip of seeded changes C02_2 / C13_1: TLC refutes Ordered / Preserved as *)
(* soon as the two variables have different sizes.  Bug = "no_unique"       *)
(* creates lower nodes without consulting the unique table: Unique fails.   *)
(***************************************************************************)
EXTENDS Integers, Sequences, FiniteSets, TLC

CONSTANTS VSizes,   \* sizes by variable, e.g. <<2, 3>>
          H,        \* number of node handles
          NR,       \* number of roots the user holds
          Rule,     \* "F" (fully-reduced) or "Q" (quasi-reduced)
          MaxSwaps, \* bound on the number of swaps in a behaviour
          Bug       \* "none" | "scan_lsize" | "no_unique"

K == Len(VSizes)
Vars == 1..K
Handles == 1..H
MaxSize == CHOOSE m \in {VSizes[v] : v \in Vars} : \A v \in Vars : VSizes[v] <= m
Assignments == {a \in [Vars -> 0..(MaxSize - 1)] : \A v \in Vars : a[v] < VSizes[v]}

VARIABLES lvl,      \* [Handles -> 0..K]; 0 = handle unused
          kids,     \* [Handles -> Seq(child)], child: handle, 0 or -1
          order,    \* level -> variable
          roots,    \* [1..NR -> child]
          fn,       \* ghost: [1..NR -> [Assignments -> {0,1}]]
          nswaps

vars == <<lvl, kids, order, roots, fn, nswaps>>

IsNode(d) == d > 0
Store == [lvl : [Handles -> 0..K], kids : [Handles -> Seq(Int)]]

LevelOf(s, d) == IF IsNode(d) THEN s.lvl[d] ELSE 0

-----------------------------------------------------------------------------
(* reduction and the unique table *)

AllEq(ch) == \A j \in 1..Len(ch) : ch[j] = ch[1]

\* returns [s, d]: the store afterwards and the edge to the reduced node
Mk(s, k, ch, unique) ==
    IF \A j \in 1..Len(ch) : ch[j] = 0 THEN [s |-> s, d |-> 0]
    ELSE IF Rule = "F" /\ AllEq(ch) THEN [s |-> s, d |-> ch[1]]
    ELSE LET same == {h \in Handles : s.lvl[h] = k /\ s.kids[h] = ch}
         IN IF unique /\ same # {} THEN [s |-> s, d |-> CHOOSE h \in same : TRUE]
            ELSE LET free == {h \in Handles : s.lvl[h] = 0}
                     h == CHOOSE x \in free : \A y \in free : x <= y
                 IN [s |-> [lvl |-> [s.lvl EXCEPT ![h] = k], kids |-> [s.kids EXCEPT ![h] = ch]], d |-> h]

-----------------------------------------------------------------------------
(* building the canonical diagram of a function in the identity order *)

RECURSIVE BuildAt(_, _, _, _)
RECURSIVE BuildKids(_, _, _, _, _, _)

\* f: function of assignments; pa: values already fixed for the variables above level k
BuildAt(s, k, f, pa) ==
    IF k = 0 THEN [s |-> s, d |-> -(f[pa])]
    ELSE LET r == BuildKids(s, k, f, pa, 0, << >>)
         IN Mk(r.s, k, r.ch, TRUE)

BuildKids(s, k, f, pa, j, acc) ==
    IF j = VSizes[k] THEN [s |-> s, ch |-> acc]
    ELSE LET r == BuildAt(s, k - 1, f, [pa EXCEPT ![k] = j])
         IN BuildKids(r.s, k, f, pa, j + 1, Append(acc, r.d))

Zero == [v \in Vars |-> 0]

-----------------------------------------------------------------------------
(* evaluation under the current order *)

\* guards against ill-ordered stores (a bug can create cycles of "levels")
RECURSIVE EvalG(_, _, _, _, _)
EvalG(s, ord, d, a, fuel) ==
    IF ~IsNode(d) THEN -d
    ELSE IF fuel = 0 THEN 2
    ELSE LET v == ord[s.lvl[d]]
         IN IF a[v] + 1 > Len(s.kids[d]) THEN 3
            ELSE EvalG(s, ord, s.kids[d][a[v] + 1], a, fuel - 1)

-----------------------------------------------------------------------------
(* the swap of levels k and k+1 *)

\* rebuild the upper nodes in `todo` one after the other, threading the store
RECURSIVE Rebuild(_, _, _, _, _, _)
RECURSIVE LowNodes(_, _, _, _, _, _, _)

\* old: the store before the swap (for reading the old children)
LowNodes(s, old, k, h, hsize, lsize, acc) ==
    IF Len(acc) = lsize THEN [s |-> s, ch |-> acc]
    ELSE LET i == Len(acc) + 1
             child(j) == LET c == old.kids[h][j]
                         IN IF IsNode(c) /\ old.lvl[c] = k THEN old.kids[c][i] ELSE c
             r == Mk(s, k, [j \in 1..hsize |-> child(j)], Bug # "no_unique")
         IN LowNodes(r.s, old, k, h, hsize, lsize, Append(acc, r.d))

Rebuild(s, old, k, todo, hsize, lsize) ==
    IF todo = {} THEN s
    ELSE LET h == CHOOSE x \in todo : \A y \in todo : x <= y
             r == LowNodes(s, old, k, h, hsize, lsize, << >>)
             s2 == [lvl |-> [r.s.lvl EXCEPT ![h] = k + 1], kids |-> [r.s.kids EXCEPT ![h] = r.ch]]
         IN Rebuild(s2, old, k, todo \ {h}, hsize, lsize)

SwapStore(s, ord, k) ==
    LET hvar == ord[k + 1]  lvar == ord[k]
        hsize == VSizes[hvar]  lsize == VSizes[lvar]
        hnodes == {h \in Handles : s.lvl[h] = k + 1}
        lnodes == {h \in Handles : s.lvl[h] = k}
        scan == IF Bug = "scan_lsize" THEN (IF lsize < hsize THEN lsize ELSE hsize) ELSE hsize
        dep == {h \in hnodes : \E j \in 1..scan : IsNode(s.kids[h][j]) /\ s.lvl[s.kids[h][j]] = k}
        \* relabel: upper nodes go down, lower nodes go up
        s1 == [lvl |-> [h \in Handles |-> IF h \in hnodes THEN k ELSE IF h \in lnodes THEN k + 1 ELSE s.lvl[h]],
               kids |-> s.kids]
        \* the dependent upper nodes are not at level k while the others are rebuilt
        s2 == [lvl |-> [h \in Handles |-> IF h \in dep THEN K + 1 ELSE s1.lvl[h]], kids |-> s1.kids]
    IN Rebuild(s2, s, k, dep, hsize, lsize)

-----------------------------------------------------------------------------
Fns == [Assignments -> {0, 1}]

Init ==
    /\ order = [k \in Vars |-> k]
    /\ nswaps = 0
    /\ \E f \in [1..NR -> Fns] :
         LET empty == [lvl |-> [h \in Handles |-> 0], kids |-> [h \in Handles |-> << >>]]
             RECURSIVE build(_, _, _)
             build(s, r, acc) ==
                 IF r > NR THEN [s |-> s, roots |-> acc]
                 ELSE LET b == BuildAt(s, K, f[r], Zero) IN build(b.s, r + 1, Append(acc, b.d))
             b == build(empty, 1, << >>)
         IN /\ lvl = b.s.lvl /\ kids = b.s.kids
            /\ roots = [r \in 1..NR |-> b.roots[r]]
            /\ fn = f

Swap(k) ==
    /\ nswaps < MaxSwaps
    /\ LET s == SwapStore([lvl |-> lvl, kids |-> kids], order, k)
       IN /\ lvl' = s.lvl /\ kids' = s.kids
    /\ order' = [order EXCEPT ![k] = order[k + 1], ![k + 1] = order[k]]
    /\ nswaps' = nswaps + 1
    /\ UNCHANGED <<roots, fn>>

Next == \E k \in 1..(K - 1) : Swap(k)

Spec == Init /\ [][Next]_vars

-----------------------------------------------------------------------------
S == [lvl |-> lvl, kids |-> kids]

\* the nodes in use: reachable from a root (the others are reclaimed by the
\* reference counts, which MddStore models; here they simply stay in the table)
RECURSIVE ReachFrom(_)
ReachFrom(T) ==
    LET nxt == T \cup {c \in UNION {{kids[h][j] : j \in 1..Len(kids[h])} : h \in T} : IsNode(c)}
    IN IF nxt = T THEN T ELSE ReachFrom(nxt)
Active == ReachFrom({roots[r] : r \in {x \in 1..NR : IsNode(roots[x])}})

\* C13: every held edge denotes the same function of the variables
Preserved == \A r \in 1..NR : \A a \in Assignments : EvalG(S, order, roots[r], a, K + 1) = fn[r][a]

\* children lie strictly below their parent
Ordered == \A h \in Active : lvl[h] <= K /\ \A j \in 1..Len(kids[h]) : LevelOf(S, kids[h][j]) < lvl[h]

\* every node has as many children as its variable has values
SizesOK == \A h \in Active : lvl[h] <= K => Len(kids[h]) = VSizes[order[lvl[h]]]

\* the unique table property (C01 after reordering)
Unique == \A g, h \in Active : (lvl[g] = lvl[h] /\ kids[g] = kids[h]) => g = h

\* the reduction rule (C02 after reordering)
Reduced == \A h \in Active :
              /\ \E j \in 1..Len(kids[h]) : kids[h][j] # 0
              /\ Rule = "F" => ~AllEq(kids[h])
              /\ Rule = "Q" => \A j \in 1..Len(kids[h]) : kids[h][j] = 0 \/ LevelOf(S, kids[h][j]) = lvl[h] - 1

Inv == Ordered /\ SizesOK /\ Preserved /\ Unique /\ Reduced

=============================================================================
