-------------------------------- MODULE Codec --------------------------------
(***************************************************************************)
(* Encoding of values into terminal node handles (terminal.h), generic in  *)
(* the handle width.  A handle is a signed integer of W bits; Q = 2^(W-2). *)
(* Terminal handles are <= 0: the most significant bit marks a terminal    *)
(* and 0 is the transparent terminal (false / 0 / 0.0).                    *)
(*                                                                         *)
(*   integers  v in [-Q, Q-1]:   handle = v with the top bit set           *)
(*   reals     bit pattern sb:   handle = (sb >> 1, arithmetic) with the   *)
(*                               top bit set; the lowest mantissa bit is   *)
(*                               lost                                      *)
(*   booleans:                   false = 0, true = -1                      *)
(* All arithmetic avoids 2^(W-1) itself (it overflows TLC's integers when  *)
(* W = 32): "set the top bit" of a non-negative x is (x - Q) - Q.          *)
(***************************************************************************)
EXTENDS Integers

IntMin(Q) == -Q
IntMax(Q) == Q - 1
InIntRange(Q, v) == v >= IntMin(Q) /\ v <= IntMax(Q)

SetTop(Q, x) == IF x >= 0 THEN (x - Q) - Q ELSE x      \* x | msb, for x in [-2Q, 2Q)

\* integer terminals
EncInt(Q, v) == IF v = 0 THEN 0 ELSE SetTop(Q, v)
DecInt(Q, h) == IF h < -Q THEN (h + Q) + Q ELSE h        \* (h << 1) >> 1, arithmetic

\* real terminals, on bit patterns (sb = the float's bits read as a signed integer);
\* zero = the patterns of +0.0 and -0.0, i.e. sb = 0 or sb = -2Q
IsZeroPattern(Q, sb) == sb = 0 \/ sb = (-Q) - Q
DropLowBit(sb) == 2 * (sb \div 2)                                             \* \div is floor division
\* a value whose bits all vanish with the low bit (zero itself and the smallest
\* subnormals) rounds to zero and is the transparent terminal
RoundsToZero(Q, sb) == IsZeroPattern(Q, DropLowBit(sb))
EncReal(Q, sb) == IF RoundsToZero(Q, sb) THEN 0 ELSE SetTop(Q, sb \div 2)
DecReal(Q, h) == IF h < -Q THEN 2 * ((h + Q) + Q) ELSE 2 * h                   \* h << 1

\* booleans
EncBool(b) == IF b THEN -1 ELSE 0
DecBool(h) == h # 0

-----------------------------------------------------------------------------
(* Properties, for every value of a given width (checked by TLC in CodecMC) *)

IntRoundTrip(Q) == \A v \in IntMin(Q)..IntMax(Q) : DecInt(Q, EncInt(Q, v)) = v
IntInjective(Q) == \A v, w \in IntMin(Q)..IntMax(Q) : EncInt(Q, v) = EncInt(Q, w) => v = w
IntZeroUnique(Q) == \A v \in IntMin(Q)..IntMax(Q) : (EncInt(Q, v) = 0) <=> (v = 0)
IntHandlesAreTerminals(Q) == \A v \in IntMin(Q)..IntMax(Q) : EncInt(Q, v) <= 0 /\ EncInt(Q, v) >= (-Q) - Q

Patterns(Q) == ((-Q) - Q)..((Q + Q) - 1)
RealRoundTrip(Q) ==
    \A sb \in Patterns(Q) :
        IF RoundsToZero(Q, sb) THEN DecReal(Q, EncReal(Q, sb)) = 0
        ELSE DecReal(Q, EncReal(Q, sb)) = DropLowBit(sb)
\* values that stay distinct after dropping the low bit get distinct handles
RealInjective(Q) ==
    \A a, b \in Patterns(Q) :
        (~RoundsToZero(Q, a) /\ ~RoundsToZero(Q, b) /\ DropLowBit(a) # DropLowBit(b)) => EncReal(Q, a) # EncReal(Q, b)
RealZeroHandle(Q) == \A sb \in Patterns(Q) : (EncReal(Q, sb) = 0) <=> RoundsToZero(Q, sb)
RealHandlesAreTerminals(Q) == \A sb \in Patterns(Q) : EncReal(Q, sb) <= 0 /\ EncReal(Q, sb) >= (-Q) - Q

\* zero is the unique handle that decodes to zero: no non-zero handle produced
\* by the encoder decodes to a zero pattern
OnlyZeroDecodesToZero(Q) ==
    \A sb \in Patterns(Q) : IsZeroPattern(Q, DecReal(Q, EncReal(Q, sb))) => EncReal(Q, sb) = 0

=============================================================================
