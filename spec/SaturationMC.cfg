SPECIFICATION Spec
CONSTANTS
  S = 3
  Rels <- MCRels
  Inits <- MCInits
  MaxCalls = 2
  Key = "ABL"
INVARIANT Correct
INVARIANT CacheSound
CHECK_DEADLOCK FALSE
