SPECIFICATION GSpec
CONSTANTS
  H = 8
  K = 3
  S = 2
  Rule = "F"
  Pess = FALSE
  NSlots = 3
  MaxCT = 3
  Bug = "none"
  D = 14
CHECK_DEADLOCK FALSE
INVARIANT Inv
