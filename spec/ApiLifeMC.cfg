SPECIFICATION MCSpec
CONSTANTS
  ND = 2
  NF = 2
  NS = 2
INVARIANT Inv
PROPERTY ErrorAtomic
PROPERTY FidMonotone
PROPERTY FidNeverReused
PROPERTY OtherDomainsUntouched
