------------------------------- MODULE MemMgr -------------------------------
(***************************************************************************)
(* Abstract memory manager (memory.h): chunks of slots addressed by        *)
(* handles.  The specification keeps the set of live chunks; a request is  *)
(* any chunk of at least the requested size, with a non-zero handle, that  *)
(* overlaps no live chunk; a recycle removes a live chunk.  Hole managers  *)
(* (grid, heap) additionally split and merge free space, which is what the *)
(* bounded model below explores: an arena of A slots with every possible   *)
(* placement.                                                              *)
(*                                                                         *)
(* Handles of the real managers can be 48-bit pointers, too wide for TLC's *)
(* integers: a handle is a triple <<w2, w1, w0>> of 16-bit words (w2 takes *)
(* the remaining high bits), compared lexicographically.                   *)
(***************************************************************************)
EXTENDS Integers, Sequences, FiniteSets, TLC

B16 == 65536

\* a + n for a handle triple and a small natural n (< 2^31 - 2^16)
HAdd(a, n) ==
    LET s0 == a[3] + n
        c0 == s0 \div B16
        s1 == a[2] + c0
        c1 == s1 \div B16
    IN <<a[1] + c1, s1 % B16, s0 % B16>>

HLess(a, b) ==
    \/ a[1] < b[1]
    \/ a[1] = b[1] /\ a[2] < b[2]
    \/ a[1] = b[1] /\ a[2] = b[2] /\ a[3] < b[3]
HLeq(a, b) == a = b \/ HLess(a, b)
HZero == <<0, 0, 0>>

\* chunks [h, h+n) and [g, g+m) are disjoint
Disjoint(h, n, g, m) == HLeq(HAdd(h, n), g) \/ HLeq(HAdd(g, m), h)

-----------------------------------------------------------------------------
VARIABLES live          \* id |-> [h, n]

Init == live = << >>

\* a request for `want` slots answered with chunk (h, got) under identifier id
Request(id, want, h, got) ==
    /\ id \notin DOMAIN live
    /\ got >= want
    /\ h # HZero
    /\ \A j \in DOMAIN live : Disjoint(h, got, live[j].h, live[j].n)
    /\ live' = (id :> [h |-> h, n |-> got]) @@ live

Recycle(id) ==
    /\ id \in DOMAIN live
    /\ live' = [j \in DOMAIN live \ {id} |-> live[j]]

NoOverlap ==
    \A i, j \in DOMAIN live : i # j => Disjoint(live[i].h, live[i].n, live[j].h, live[j].n)

=============================================================================
