SPECIFICATION Spec
CONSTANTS
  H = 4
  K = 2
  S = 2
  Rule = "Q"
  Pess = TRUE
  NSlots = 2
  MaxCT = 1
  Bug = "none"
INVARIANT Inv
PROPERTY HitNeverDead
