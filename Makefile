# Builds the MEDDLY library from /repo's *current working tree* with the
# verification hooks enabled (-DMEDDLY_VERIF), plus the harness programs.
# Objects live under /verif/build/<variant>/; dependency files (-MMD) make a
# source or header edit in /repo rebuild exactly what it must.
#
#   make -j16 VARIANT=rel    (default: -O1)
#   make -j16 VARIANT=asan   (-O1 -g -fsanitize=address)

REPO    ?= /repo
VARIANT ?= rel
B       := build/$(VARIANT)

CXX      := g++
BASEFLAGS := -std=c++11 -DHAVE_CONFIG_H -DMEDDLY_VERIF -I$(B)/inc -I$(REPO)/src -Wno-error -w
ifeq ($(VARIANT),asan)
OPT := -O1 -g -fsanitize=address -fno-omit-frame-pointer
else
OPT := -O1
endif
CXXFLAGS := $(BASEFLAGS) $(OPT)

LIBSRC := $(filter-out $(REPO)/src/storage/realtest.cc, \
            $(wildcard $(REPO)/src/*.cc $(REPO)/src/forests/*.cc \
                       $(REPO)/src/memory_managers/*.cc $(REPO)/src/operations/*.cc \
                       $(REPO)/src/storage/*.cc))
LIBOBJ := $(patsubst $(REPO)/src/%.cc,$(B)/lib/%.o,$(LIBSRC))

HARNESS := mdrive memdrive codecdrive
HBIN    := $(addprefix $(B)/,$(HARNESS))

all: $(HBIN)

# config.h is a configure product (untracked in /repo); use /repo's if it is
# there, otherwise a committed copy of the same file.
$(B)/inc/config.h: FORCE
	@mkdir -p $(B)/inc
	@if [ -f $(REPO)/config.h ]; then cmp -s $(REPO)/config.h $@ || cp $(REPO)/config.h $@; \
	 else cmp -s harness/config.h.fallback $@ || cp harness/config.h.fallback $@; fi

$(B)/lib/%.o: $(REPO)/src/%.cc $(B)/inc/config.h
	@mkdir -p $(dir $@)
	$(CXX) $(CXXFLAGS) -MMD -MP -c $< -o $@

$(B)/libmeddly.a: $(LIBOBJ)
	@rm -f $@
	ar rcs $@ $(LIBOBJ)

$(B)/%.o: harness/%.cc $(B)/inc/config.h
	@mkdir -p $(dir $@)
	$(CXX) $(CXXFLAGS) -MMD -MP -c $< -o $@

$(B)/%: $(B)/%.o $(B)/libmeddly.a
	$(CXX) $(OPT) -o $@ $< $(B)/libmeddly.a -lgmp

FORCE:
.PHONY: all FORCE
.SECONDARY:

-include $(LIBOBJ:.o=.d)
-include $(addsuffix .d,$(HBIN))
