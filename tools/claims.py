# Claimed properties (exec'd by mkmanifest.py).  claim(id, technique, level text, level note, DESIGN.md ref)
TV = 'TLC trace validation: every recorded call of the real library is explained by the MddApi action; TLC recomputes the expected table from the MddFun definition'
claim('C03', TV + ' (CollFn/ConstFn/VarFn)',
      'Every recorded construction call (single minterm, minterm collection max/min with default, constant, variable) is explained by the '
      'MddApi action whose result is the MddFun table; TLC recomputes the expected table for every call and compares all points. '
      'Exhaustive over all single minterms on tiny shapes per forest kind x rule; seeded random collections on shapes up to 4 variables.',
      'Bounded: tiny shapes exhaustively, random shapes by seed.', '6 C03')
claim('C04', TV + ' (UnionFn/InterFn/DiffFn/ComplFn/CrossFn), all pairs on tiny domains x forest triples',
      'All 16x16 operand pairs over <2,2> (sets) and <2> (relations) for UNION/INTERSECTION/DIFFERENCE/COMPLEMENT/CROSS across operand/result '
      'forest triples that include two distinct forests of the same rule; operands re-read after each call; warm and cleared compute tables; '
      'TLC decides every call against the pointwise definition.',
      'Quick runs a seeded subset of the forest triples; thorough all of them.', '6 C04')
claim('C05', TV + ' (ArithFn/CmpFn/UserFn/DistIncFn/MaxRange/MinRange with C++ scalar semantics and EV+ infinity rules)',
      'Every pair of functions over <2> with palette values (negative, zero, positive, large, +infinity) per forest kind (MT int/real, EV+, EV*; sets and '
      'relations), every arithmetic operation and comparison, three distinct operand/result forests over all reduction-rule triples (thorough); structured '
      'operands that trigger each shortcut; error outcomes (DIVIDE_BY_ZERO, SUBTRACT_INFINITY, INFINITY_DIV_INFINITY) required exactly where a point is an invalid '
      'scalar case; named deviations for the shortcut classes that are listed as known findings.',
      'Reals only on the dyadic grid; 0*infinity and infinity->MT conversions are undocumented and left unconstrained.', '6 C05')
claim('C08', TV + ' (ReachB/ReachD least fixed point computed by TLC)',
      'REACHABLE_TRAD_FS/NOFS/SATUR forward and backward: every initial set x every relation over <2>, seeded pairs on larger shapes; boolean, MT-integer '
      'distance and EV+ distance; relation forests of all three rules; same and distinct initial/result forests; call sequences share compute tables and the '
      'cached relation split; all algorithms write into one result forest so identity of their results is compared as well.',
      'Saturation with non identity-reduced relation forests is a listed known finding (class keyed by the relation forest rule).', '6 C08')
claim('C09', TV + ' (PostImageB/PreImageB/DistImage/VecMat)',
      'POST_IMAGE/PRE_IMAGE for boolean sets (every set x every relation over <2>), MT-integer and EV+ distance functions, VM/MV multiply for integer and dyadic '
      'real vectors and matrices, relation forests of all three rules, operands re-read after each call.',
      'Sampled beyond <2>.', '6 C09')
claim('C10', TV + ' (CopyFn with the documented scalar conversion), round trip identity',
      'Every ordered pair of forest kinds of the same shape x reduction-rule pairs; all boolean functions on the smallest shapes, palette tables elsewhere; '
      'each copy is copied back and the identity of the round trip is compared with the original edge.',
      'infinity -> non-EV+ and inexact real -> integer conversions are not documented and left unconstrained.', '6 C10')
claim('C15', TV + ' (IndexSetFn/ElemOf/CardFn), exhaustive over all sets of tiny domains',
      'Every boolean set over <2,2>, <2,3> (thorough <2,2,2>, <3,3>) incl. empty and full, fully- and quasi-reduced sources: index-set table, getElement(i) for all i in -1..n+1, stored cardinality.',
      'Exhaustive on the named shapes only.', '6 C15')
claim('C20', TV + ' (SatOutcome = ReachB over the union of the events)',
      'Event lists with overlapping/disjoint supports, self-loops, unchanged top variable, empty events; by events and by levels with all five splitting options; '
      'relation forests of all rules; result compared with TLC\'s least fixed point and, for identity, with REACHABLE_TRAD_NOFS on the union relation.',
      'Non identity-reduced relation forests are a listed known finding.', '6 C20')
