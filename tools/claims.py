# Claimed properties (exec'd by mkmanifest.py).  claim(id, technique, level text, level note, DESIGN.md ref)
TV = 'TLC trace validation: every recorded call of the real library is explained by the MddApi action; TLC recomputes the expected table from the MddFun definition'
claim('C03', TV + ' (CollFn/ConstFn/VarFn)',
      'Every recorded construction call (single minterm, minterm collection max/min with default, constant, variable) is explained by the '
      'MddApi action whose result is the MddFun table; TLC recomputes the expected table for every call and compares all points. '
      'Exhaustive over all single minterms on tiny shapes per forest kind x rule; seeded random collections on shapes up to 4 variables.',
      'Bounded: tiny shapes exhaustively, random shapes by seed.', '6 C03')
claim('C04', TV + ' (UnionFn/InterFn/DiffFn/ComplFn/CrossFn), all pairs on tiny domains x forest triples',
      'All 16x16 operand pairs over <2,2> (sets) and <2> (relations) for UNION/INTERSECTION/DIFFERENCE/COMPLEMENT/CROSS across operand/result '
      'forest triples that include two distinct forests of the same rule; operands re-read after each call; warm and cleared compute tables; '
      'TLC decides every call against the pointwise definition.',
      'Quick runs a seeded subset of the forest triples; thorough all of them.', '6 C04')
claim('C05', TV + ' (ArithFn/CmpFn/UserFn/DistIncFn/MaxRange/MinRange with C++ scalar semantics and EV+ infinity rules)',
      'Every pair of functions over <2> with palette values (negative, zero, positive, large, +infinity) per forest kind (MT int/real, EV+, EV*; sets and '
      'relations), every arithmetic operation and comparison, three distinct operand/result forests over all reduction-rule triples (thorough); structured '
      'operands that trigger each shortcut; error outcomes (DIVIDE_BY_ZERO, SUBTRACT_INFINITY, INFINITY_DIV_INFINITY) required exactly where a point is an invalid '
      'scalar case; named deviations for the shortcut classes that are listed as known findings.',
      'Reals only on the dyadic grid; 0*infinity and infinity->MT conversions are undocumented and left unconstrained.', '6 C05')
claim('C08', TV + ' (ReachB/ReachD least fixed point computed by TLC)',
      'REACHABLE_TRAD_FS/NOFS/SATUR forward and backward: every initial set x every relation over <2>, seeded pairs on larger shapes; boolean, MT-integer '
      'distance and EV+ distance; relation forests of all three rules; same and distinct initial/result forests; call sequences share compute tables and the '
      'cached relation split; all algorithms write into one result forest so identity of their results is compared as well.',
      'Saturation with non identity-reduced relation forests is a listed known finding (class keyed by the relation forest rule).', '6 C08')
claim('C09', TV + ' (PostImageB/PreImageB/DistImage/VecMat)',
      'POST_IMAGE/PRE_IMAGE for boolean sets (every set x every relation over <2>), MT-integer and EV+ distance functions, VM/MV multiply for integer and dyadic '
      'real vectors and matrices, relation forests of all three rules, operands re-read after each call.',
      'Sampled beyond <2>.', '6 C09')
claim('C10', TV + ' (CopyFn with the documented scalar conversion), round trip identity',
      'Every ordered pair of forest kinds of the same shape x reduction-rule pairs; all boolean functions on the smallest shapes, palette tables elsewhere; '
      'each copy is copied back and the identity of the round trip is compared with the original edge.',
      'infinity -> non-EV+ and inexact real -> integer conversions are not documented and left unconstrained.', '6 C10')
claim('C15', TV + ' (IndexSetFn/ElemOf/CardFn), exhaustive over all sets of tiny domains',
      'Every boolean set over <2,2>, <2,3> (thorough <2,2,2>, <3,3>) incl. empty and full, fully- and quasi-reduced sources: index-set table, getElement(i) for all i in -1..n+1, stored cardinality.',
      'Exhaustive on the named shapes only.', '6 C15')
claim('C20', TV + ' (SatOutcome = ReachB over the union of the events)',
      'Event lists with overlapping/disjoint supports, self-loops, unchanged top variable, empty events; by events and by levels with all five splitting options; '
      'relation forests of all rules; result compared with TLC\'s least fixed point and, for identity, with REACHABLE_TRAD_NOFS on the union relation.',
      'Non identity-reduced relation forests are a listed known finding.', '6 C20')
ST = 'TLC evaluation of the MddNodes predicates (the invariants MddStore is model-checked against) on node snapshots and lifecycle events recorded from the real library'
claim('C01', 'TLC model checking of MddStore (Canonical, RootsCanonical) + ' + TV + ' with identity-vs-function compared over all held edges',
      'Design level: TLC proves on the bounded store model that the reduce / unique-table / recycle design keeps distinct live nodes denoting distinct functions '
      'through every history of creation, deletion and handle reuse.  Implementation level: each target function is built along several paths (collection, '
      'point-wise joins in shuffled order, algebraic identities, copy through another forest and back, again after everything was released) in every forest kind x '
      'rule, and a sample of all other drivers\' executions is re-judged: TLC checks equal identity (node handle + typed edge value) <=> equal evaluated table '
      'over all edges held at every result, plus hash equality of the three unpackings and unique-table look-up of every node in every snapshot.',
      'Bounded model (2 levels x size 2, 3..4 handles); implementation paths by seed.  EV* only on values where float arithmetic is exact.', '6 C01')
claim('C02', ST,
      'Every snapshot (every 10 calls, at the end, after releasing all edges, after clearing caches, after reorderings, after provoked errors) lists every live '
      'node unpacked three ways; TLC evaluates WellFormedNode (no duplicate, not all-transparent, no forbidden redundant node, quasi never skips, no illegal '
      'identity singleton, children live and strictly below, EV normal form), view/hash/unique-table agreement, node count = live nodes = unique-table entries, '
      'and DenoteRoot(snapshot) = evaluated table for every held edge.',
      'Random histories by seed over random kinds / rules / storage / memory manager / deletion policies; EV* excluded from arithmetic histories.', '6 C02')
claim('C06', 'TLC model checking of MddStore (RefExact, NoDangling, FreeMeansUnreferenced, ReclaimAll) + ' + ST,
      'Design level: exhaustive over the bounded store model under both deletion policies.  Implementation: at every snapshot incoming count = parent slots + '
      'registered root edges (MEDDLY_VERIF hook) + build-list references; no pointer to a reclaimed node; live set = set implied by NewNode/DelNode/Recycle '
      'events; a handle is allocated only when free and unmentioned by any live cache entry; held edges still denote their functions; nothing remains once all '
      'edges are released (pessimistic) and caches cleared (optimistic); counts driven through 8/16/32-bit widths.',
      'Histories without provoked errors (those belong to C16).', '6 C06')
claim('C07', 'TLC model checking of MddStore (CacheExact, CTSound, HitNeverDead; seeded deviations refuted) + ' + ST,
      'The same history under 4 table styles x 3 stale policies x 2 sizes validates against the cache-free API specification (so all agree); CTAdd/CTHit/CTDel '
      'events: a hit must return a live entry whose nodes all are live in the generation they had at the add; cache count of every node = entries in the '
      'specification\'s bag = entries counted by the table.',
      'Quick: 6 of the 24 configurations by seed.', '6 C07')
claim('C11', TV + ' (IterSeq, CardFn) + node/edge counts against the reachable sub-graph of the snapshot',
      'Iteration sequences must equal IterSeq exactly (order, multiplicity, values) for every mask on tiny shapes and random masks on larger ones; CARDINALITY '
      'as long/double/mpz; getNodeCount / getEdgeCount(false|true) against the reachable sub-graph TLC derives from the node snapshot.',
      'All masks only on the smallest shape per kind.', '6 C11')
claim('C12', TV + ' + ' + ST + ' of one history under every policy combination',
      'One allocation-heavy history per shape executed under storage x memory manager x deletion combinations (36 in thorough); every trace must satisfy the '
      'one specification (no policy parameter), the C02 structure predicates and the node-count checks.',
      'Quick: a covering subset of 8 combinations.', '6 C12')
claim('C13', TV + ' (PermuteFn) + ' + ST,
      'All eight heuristics, both swap methods, several target permutations, live edges and warm caches; after each reordering every held edge must equal '
      'PermuteFn of its table, a second forest must be unchanged, snapshots must satisfy the rule; thorough repeats under AddressSanitizer.',
      'LEVEL swap on relation forests is a listed known finding.', '6 C13')
claim('C14', TV + ' (files variable: WriteEdges / ReadEdges) + ' + ST,
      'Root lists with terminal roots, constants, shared sub-graphs and repeated roots written and read back into the same forest, another forest, and a forest '
      'created from the file; tables equal in order; receiving forest snapshot canonical with exact counts.',
      'A forest created from a file of a non-default reduction rule is a listed known finding.', '6 C14')
claim('C16', 'TLC model checking of MddApiMC (ErrorAtomic) + ' + TV + ' for every misuse in the catalogue',
      'Every provoked misuse must raise the documented code (or any MEDDLY::error where none is documented) and leave every held edge and forest unchanged '
      '(re-evaluated and snapshot after each); deep-recursion errors; detached edges; thorough under AddressSanitizer.',
      'Catalogue is fixed; order random by seed.', '6 C16')
claim('C17', 'TLC model checking of MddApiMC (AttachedIsLive, FidUnique, FidMonotone, FidNeverReused, OtherDomainsUntouched) + ' + TV,
      'Design level: every lifecycle order within 2 domains x 2..3 forests x 2..3 edges.  Implementation: seeded random lifecycles with forests and domains '
      'destroyed under attached edges and populated caches, detached-edge use, repeated init/cleanup; specification state compared after every step; thorough '
      'under AddressSanitizer.',
      'Iterators and user-held operation objects across destruction are not driven.', '6 C17')
claim('C18', 'TLC model checking of MemMgrMC + TLC trace validation of recorded request/recycle sequences against MemMgr',
      'Every recorded request must be at least as large as asked, have a non-zero handle and be disjoint from every live chunk of the specification state; '
      'recycles only of live chunks; contents pattern intact at recycle and checkpoints; five styles x two slot widths x four patterns; thorough under ASan.',
      'Chunk contents are observed by the driver (pattern check), judged by TLC.', '6 C18')
claim('C19', 'TLC exhaustive check of Codec for every word of widths 6..12 + TLC validation of the real 32-bit codec on boundary and random values',
      'Width-generic specification checked for every word of small widths; the real codec validated line by line with Q = 2^30: handles, decoded values, '
      'overflow rejection, zero <=> transparent handle, no non-zero handle decoding to zero.',
      'The full 2^32 sweep is beyond TLC; boundary values of every bit position plus seeded random words are validated.', '6 C19')
