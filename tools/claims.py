# Claimed properties (exec'd by mkmanifest.py).  claim(id, technique, level text, level note, DESIGN.md ref)
claim('C03', 'TLC trace validation of recorded construction calls against the TLA+ definition CollFn/ConstFn/VarFn',
      'Every recorded construction call (single minterm, minterm collection max/min with default, constant, variable) is explained by the '
      'MddApi action whose result is the MddFun table; TLC recomputes the expected table for every call and compares all points. '
      'Exhaustive over all single minterms on tiny shapes per forest kind x rule; seeded random collections on shapes up to 4 variables.',
      'Bounded: tiny shapes exhaustively, random shapes by seed.', '6 C03')
claim('C04', 'TLC trace validation of set-algebra calls against pointwise TLA+ definitions, all pairs on tiny domains x forest triples',
      'All 16x16 operand pairs over <2,2> (sets) and <2> (relations) for UNION/INTERSECTION/DIFFERENCE/COMPLEMENT/CROSS across operand/result '
      'forest triples that include two distinct forests of the same rule; operands re-read after each call; warm and cleared compute tables; '
      'TLC decides every call against UnionFn/InterFn/DiffFn/ComplFn/CrossFn.',
      'Quick runs a seeded subset of the forest triples; thorough all of them.', '6 C04')
