#!/usr/bin/env python3
"""Regenerate /verif/MANIFEST.json from the table below (one entry per claimed
property) - run after adding or removing a check so that the manifest always
validates against /root/.vp/MANIFEST.schema.json."""
import json
import os
import subprocess
import sys

VERIF = os.path.dirname(os.path.dirname(os.path.abspath(__file__)))

# property -> (technique, level text, level note, design ref)
CLAIMS = {}


def claim(pid, technique, text, note, ref):
    CLAIMS[pid] = dict(technique=technique, text=text, note=note, ref=ref)


TRUST = ('Trusted base: TLC 1.8.0 + CommunityModules (Json, IOUtils); the driver harness/mdrive.cc records arguments and '
         'observed results faithfully and computes no expected value; function tables are read with dd_edge::evaluate at every '
         'point of the domain (cross-checked against the iterator and the node-snapshot denotation by C11/C02); integers < 2^30, '
         'reals on the dyadic grid k/64; exhaustive only on the tiny domains named in the evidence, seeded sampling elsewhere.')

exec(open(os.path.join(VERIF, 'tools', 'claims.py')).read())

NOT_APPLICABLE = []
exec(open(os.path.join(VERIF, 'tools', 'not_applicable.py')).read())


def main():
    hooks_commits = []
    try:
        out = subprocess.run(['git', '-C', '/repo', 'log', '--format=%H %s'], stdout=subprocess.PIPE, text=True).stdout
        for line in out.splitlines():
            h, s = line.split(' ', 1)
            if s.startswith('verif:'):
                hooks_commits.append(h)
    except Exception:
        pass
    checks = []
    for pid in sorted(CLAIMS):
        c = CLAIMS[pid]
        checks.append({
            'property_id': pid,
            'quick_cmd': './check %s quick' % pid,
            'thorough_cmd': './check %s thorough' % pid,
            'evidence_file': '/verif/evidence/%s.json' % pid,
            'replay_cmd_template': './check --replay {path}',
            'engine': 'tlc-trace-validation',
            'level_claimed': {'category': 'model_checking', 'text': c['text'], 'design_ref': c['ref']},
            'level_note': c['note'] + ' ' + TRUST,
            'technique': c['technique'],
        })
    claimed = set(CLAIMS)
    na = [x for x in NOT_APPLICABLE if x['property_id'] not in claimed]
    m = {
        'version': 1,
        'setup_cmd': 'make -s -j16 VARIANT=rel && python3 tools/selftest.py --sany',
        'hooks': {
            'guard': 'MEDDLY_VERIF',
            'enable': 'checks compile /repo/src/**/*.cc out of tree into /verif/build/<variant>/ with -DMEDDLY_VERIF (see /verif/Makefile); '
                      'the guard is never defined by /repo\'s own build system',
            'baseline_off_cmd': 'cd /repo && make -k check',
            'source_commits': hooks_commits,
            'add_only': True,
        },
        'engines': [
            {'name': 'tlc-trace-validation', 'path': '/verif/spec',
             'serves_properties': sorted(claimed),
             'kind_free_text': 'explicit TLA+ specification (MddFun denotational layer, MddApi state machine, MddStore node store, MemMgr, Codec) '
                               'model-checked with TLC on bounded instances; bound to the implementation by TLC validation of NDJSON traces '
                               'recorded from the real library (driver harness/mdrive.cc and friends, -DMEDDLY_VERIF observer hooks)'},
        ],
        'checks': checks,
        'not_applicable': na,
        'notes': 'Exit codes of ./check: 0 held (KNOWN-FINDING lines for listed findings), 1 VIOLATION, 2 machinery failure (never a verdict). '
                 'Known findings: /verif/known_findings.json.',
    }
    with open(os.path.join(VERIF, 'MANIFEST.json'), 'w') as f:
        json.dump(m, f, indent=1)
    try:
        import jsonschema
        jsonschema.validate(m, json.load(open('/root/.vp/MANIFEST.schema.json')))
        print('MANIFEST.json valid: %d checks, %d not_applicable' % (len(checks), len(na)))
    except ImportError:
        print('MANIFEST.json written (jsonschema not importable here)')


if __name__ == '__main__':
    main()
