#!/usr/bin/env python3
"""Confirm a seeded change in a scratch worktree and import it under /verif/seeded.

    confirm_seeded.py <worktree> <property> <change.diff> <demo.cc> <meta.txt> <id>

Steps (all in the scratch worktree, never in /repo): the tree must be clean; build the
demo against the unchanged library -> must PASS (exit 0); apply the change, rebuild,
run the stock suite -> must report 121 passed, 0 failed; rebuild the demo -> must
FAIL (non-zero exit or crash); revert and rebuild.  Only then the change is stored as
/verif/seeded/<id>/ {patch.diff, demo.cc, meta.json}.
"""
import json
import os
import shutil
import subprocess
import sys

VERIF = os.path.dirname(os.path.dirname(os.path.abspath(__file__)))


def sh(cmd, cwd=None, timeout=3600):
    p = subprocess.run(cmd, shell=True, cwd=cwd, stdout=subprocess.PIPE, stderr=subprocess.STDOUT, text=True, timeout=timeout)
    return p.returncode, p.stdout


def build_demo(wt, demo, out):
    rc, o = sh('g++ -std=c++11 -w -I %s/src -I %s %s %s/src/.libs/libmeddly.a -lgmp -o %s' % (wt, wt, demo, wt, out))
    return rc == 0, o


def run_demo(binary):
    try:
        rc, o = sh('timeout 300 %s' % binary)
    except subprocess.TimeoutExpired:
        return 124, 'timeout'
    return rc, o[-600:]


def main(argv):
    wt, prop, diff, demo, metatxt, sid = argv[1:7]
    log = {}
    rc, o = sh('git status --porcelain --untracked-files=no', cwd=wt)
    if o.strip():
        sh('git checkout -- .', cwd=wt)
    rc, o = sh('make -j8 > /dev/null 2>&1; echo built', cwd=wt)
    ok, o = build_demo(wt, demo, '/tmp/mut/confirm_demo_base_' + os.path.basename(wt.rstrip('/')))
    if not ok:
        print(sid, 'REJECTED: demo does not compile:', o[-400:])
        return 1
    rc0, out0 = run_demo('/tmp/mut/confirm_demo_base_' + os.path.basename(wt.rstrip('/')))
    log['demo_unchanged'] = {'exit': rc0, 'tail': out0[-200:]}
    if rc0 != 0:
        print(sid, 'REJECTED: demo fails on the unchanged library (exit %d)' % rc0)
        return 1
    rc, o = sh('git apply %s' % diff, cwd=wt)
    if rc != 0:
        print(sid, 'REJECTED: patch does not apply:', o[-300:])
        return 1
    try:
        rc, o = sh('make -j8 2>&1 | tail -3', cwd=wt)
        rc, o = sh('make -k -j8 check 2>&1 | grep -E "^# (TOTAL|PASS|FAIL|ERROR)"', cwd=wt)
        log['suite_with_change'] = o.strip().replace('\n', ' ')
        if '# PASS:  121' not in o or '# FAIL:  0' not in o:
            print(sid, 'REJECTED: stock suite does not pass with the change:', o)
            return 1
        ok, o = build_demo(wt, demo, '/tmp/mut/confirm_demo_mut_' + os.path.basename(wt.rstrip('/')))
        if not ok:
            print(sid, 'REJECTED: demo does not compile against changed library')
            return 1
        rc1, out1 = run_demo('/tmp/mut/confirm_demo_mut_' + os.path.basename(wt.rstrip('/')))
        log['demo_changed'] = {'exit': rc1, 'tail': out1[-200:]}
        if rc1 == 0:
            print(sid, 'REJECTED: demo passes with the change')
            return 1
    finally:
        sh('git checkout -- .', cwd=wt)
        sh('make -j8 > /dev/null 2>&1', cwd=wt)
    d = os.path.join(VERIF, 'seeded', sid)
    os.makedirs(d, exist_ok=True)
    shutil.copy(diff, os.path.join(d, 'patch.diff'))
    shutil.copy(demo, os.path.join(d, 'demo.cc'))
    meta = {'property': prop, 'id': sid,
            'needs_to_manifest': open(metatxt).read() if os.path.exists(metatxt) else '',
            'confirmed': log,
            'how_confirmed': 'scratch worktree: demo exits 0 on the unchanged library; with patch.diff applied `make -k check` reports 121 passed / 0 failed and the demo exits non-zero; tree reverted afterwards'}
    with open(os.path.join(d, 'meta.json'), 'w') as f:
        json.dump(meta, f, indent=1)
    print(sid, 'CONFIRMED', log)
    return 0


if __name__ == '__main__':
    sys.exit(main(sys.argv))
