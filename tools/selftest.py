#!/usr/bin/env python3
"""setup-time self test: every TLA+ module parses (SANY)."""
import glob, os, subprocess, sys
VERIF = os.path.dirname(os.path.dirname(os.path.abspath(__file__)))
JAR = '/opt/veriftools/tla/tla2tools.jar:/opt/veriftools/tla/CommunityModules-deps.jar'
def sany():
    bad = 0
    for f in sorted(glob.glob(os.path.join(VERIF, 'spec', '*.tla'))):
        if '_TTrace_' in f: continue
        p = subprocess.run(['java', '-cp', JAR, 'tla2sany.SANY', os.path.basename(f)], cwd=os.path.join(VERIF, 'spec'),
                           stdout=subprocess.PIPE, stderr=subprocess.STDOUT, text=True)
        ok = p.returncode == 0 and 'Semantic errors' not in p.stdout and 'Parse Error' not in p.stdout and 'Fatal' not in p.stdout
        print('%-28s %s' % (os.path.basename(f), 'ok' if ok else 'FAILED'))
        if not ok:
            print(p.stdout[-2000:]); bad += 1
    return bad
if __name__ == '__main__':
    sys.exit(1 if sany() else 0)
