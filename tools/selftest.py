#!/usr/bin/env python3
"""Self tests of the machinery.

    selftest.py --sany      every TLA+ module parses (part of setup)
    selftest.py --binding   the specification is bound to what is recorded: a trace of the
                            real library is accepted, and the same trace with one recorded
                            field corrupted, or one hook event removed, is rejected
"""
import glob
import json
import os
import random
import shutil
import subprocess
import sys

VERIF = os.path.dirname(os.path.dirname(os.path.abspath(__file__)))
sys.path.insert(0, os.path.join(VERIF, 'tools'))
JAR = '/opt/veriftools/tla/tla2tools.jar:/opt/veriftools/tla/CommunityModules-deps.jar'


def sany():
    bad = 0
    for f in sorted(glob.glob(os.path.join(VERIF, 'spec', '*.tla'))):
        if '_TTrace_' in f:
            continue
        p = subprocess.run(['java', '-cp', JAR, 'tla2sany.SANY', os.path.basename(f)], cwd=os.path.join(VERIF, 'spec'),
                           stdout=subprocess.PIPE, stderr=subprocess.STDOUT, text=True)
        ok = p.returncode == 0 and 'Semantic errors' not in p.stdout and 'Parse Error' not in p.stdout and 'Fatal' not in p.stdout
        print('%-28s %s' % (os.path.basename(f), 'ok' if ok else 'FAILED'))
        if not ok:
            print(p.stdout[-2000:])
            bad += 1
    return bad


def binding():
    import vcheck as V
    import plans
    work = os.path.join(VERIF, 'work', 'selftest')
    shutil.rmtree(work, ignore_errors=True)
    os.makedirs(work)
    bindir = V.build('rel')
    rng = random.Random(7)
    forests = [dict(kind='mtb_s', rule='F', dele='O'), dict(kind='mtb_s', rule='Q', dele='P')]
    text = plans.history_script(rng, [2, 3, 2], forests, 60, snap_every=15)
    [trace] = V.run_scripts(bindir, [('base', text)], work, lifecycle=True)
    lines = open(trace).read().splitlines()

    def verdict(name, newlines, module, cfg, tag):
        t = os.path.join(work, 'traces', name + '.ndjson')
        with open(t, 'w') as f:
            f.write('\n'.join(newlines) + '\n')
        v, k, st, tr, nl = V.validate([t], module, cfg, work, tag=tag + name, nshards=1)
        return sorted(set((x[0], x[1]) for x in v))

    fails = 0
    base_api = verdict('ok', lines, 'MddApiTrace.tla', 'MddApiTrace.cfg', 'a')
    base_store = verdict('ok', lines, 'MddStoreTrace.tla', 'MddStoreTrace.cfg', 's')
    print('unmodified trace: api', base_api, 'store', base_store)
    if [x for x in base_api + base_store if not x[1].startswith('KF:')]:
        print('FAILED: the unmodified trace is not accepted')
        fails += 1

    # (a) corrupt one point of one recorded result table
    idx = [i for i, l in enumerate(lines) if l.startswith('{"e":"Bin"') and '"fn":[' in l]
    i = idx[len(idx) // 2]
    ev = json.loads(lines[i])
    ev['res']['fn'][0] = 1 - ev['res']['fn'][0]
    mod = list(lines)
    mod[i] = json.dumps(ev, separators=(',', ':'))
    va = verdict('corrupt_fn', mod, 'MddApiTrace.tla', 'MddApiTrace.cfg', 'a')
    print('(a) one function point flipped     ->', va)
    if not any(k == 'wrong-function' for _, k in va):
        print('FAILED: corrupted result accepted')
        fails += 1

    # (b) corrupt one incoming count in one snapshot
    idx = [i for i, l in enumerate(lines) if l.startswith('{"e":"Snap"') and '"inc":' in l]
    i = idx[0]
    ev = json.loads(lines[i])
    ev['nodes'][0]['inc'] += 1
    mod = list(lines)
    mod[i] = json.dumps(ev, separators=(',', ':'))
    vb = verdict('corrupt_inc', mod, 'MddStoreTrace.tla', 'MddStoreTrace.cfg', 's')
    print('(b) one incoming count incremented ->', vb)
    if not any(k == 'incoming-count-differs-from-references' for _, k in vb):
        print('FAILED: corrupted incoming count accepted')
        fails += 1

    # (c) remove one CTAdd event that is later hit (a missing hook)
    def key_of(e):
        return (e['ct'], e['id0'], e['id1'], e['id2'])
    done = False
    for hi, l in enumerate(lines):
        if not l.startswith('{"e":"CTHit"'):
            continue
        key = key_of(json.loads(l))
        # the add this hit answers: the latest CTAdd of that entry before the hit
        adds = [i for i in range(hi) if lines[i].startswith('{"e":"CTAdd"') and key_of(json.loads(lines[i])) == key]
        if adds:
            mod = [x for j, x in enumerate(lines) if j != adds[-1]]
            vc = verdict('drop_ctadd', mod, 'MddStoreTrace.tla', 'MddStoreTrace.cfg', 's')
            print('(c) one CTAdd event removed        ->', vc)
            if not any(p == 'C07' for p, _ in vc):
                print('FAILED: missing hook event accepted')
                fails += 1
            done = True
            break
    if not done:
        print('(c) skipped: no cache hit in this history')

    # (d) remove one NewNode event
    news = [i for i, l in enumerate(lines) if l.startswith('{"e":"NewNode"')]
    mod = [l for j, l in enumerate(lines) if j != news[len(news) // 2]]
    vd = verdict('drop_newnode', mod, 'MddStoreTrace.tla', 'MddStoreTrace.cfg', 's')
    print('(d) one NewNode event removed      ->', vd)
    if not any(p == 'C06' for p, _ in vd):
        print('FAILED: missing NewNode event accepted')
        fails += 1
    shutil.rmtree(work, ignore_errors=True)
    print('binding self test:', 'FAILED' if fails else 'ok')
    return fails


if __name__ == '__main__':
    if '--binding' in sys.argv:
        sys.exit(1 if binding() else 0)
    sys.exit(1 if sany() else 0)
