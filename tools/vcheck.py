#!/usr/bin/env python3
"""Orchestrator of the MEDDLY model-based checks.

    vcheck.py <PROPERTY> <quick|thorough>
    vcheck.py --replay <dir>

For one property: (1) rebuild the library + harness from /repo's working tree
with -DMEDDLY_VERIF, (2) model-check the property's TLA+ configuration(s) with
TLC, (3) generate driver scripts, run them against the real library (one
process per execution), (4) validate every recorded trace against the
specification with TLC, (5) report, (6) write evidence.

Exit status: 0 = property held on everything explored (KNOWN-FINDING lines are
printed for listed findings that are still present), 1 = at least one
VIOLATION line, 2 = the machinery itself failed (never a verdict).
"""
import concurrent.futures as cf
import hashlib
import json
import os
import re
import shutil
import subprocess
import sys
import time

VERIF = os.path.dirname(os.path.dirname(os.path.abspath(__file__)))
sys.path.insert(0, os.path.join(VERIF, 'tools'))

SPEC = os.path.join(VERIF, 'spec')
JAR = '/opt/veriftools/tla/tla2tools.jar:/opt/veriftools/tla/CommunityModules-deps.jar'
NCPU = os.cpu_count() or 4


class Machinery(Exception):
    pass


def log(*a):
    print(*a, file=sys.stderr, flush=True)


# ---------------------------------------------------------------------------
# build
# ---------------------------------------------------------------------------
def build(variant='rel'):
    t0 = time.time()
    # one build at a time (checks may be started concurrently)
    import fcntl
    os.makedirs(os.path.join(VERIF, 'build'), exist_ok=True)
    lock = open(os.path.join(VERIF, 'build', '.lock'), 'w')
    fcntl.flock(lock, fcntl.LOCK_EX)
    try:
        p = subprocess.run(['make', '-s', '-j%d' % NCPU, 'VARIANT=' + variant], cwd=VERIF,
                           stdout=subprocess.PIPE, stderr=subprocess.STDOUT, text=True)
    finally:
        fcntl.flock(lock, fcntl.LOCK_UN)
        lock.close()
    if p.returncode != 0:
        log(p.stdout[-4000:])
        raise Machinery('build failed (variant %s)' % variant)
    log('[build %s] %.1fs' % (variant, time.time() - t0))
    return os.path.join(VERIF, 'build', variant)


# ---------------------------------------------------------------------------
# TLC
# ---------------------------------------------------------------------------
def run_tlc(module, cfg, metadir, env=None, workers=1, extra=None, timeout=3000, xmx='3g'):
    e = dict(os.environ)
    if env:
        e.update(env)
    shutil.rmtree(metadir, ignore_errors=True)
    os.makedirs(metadir, exist_ok=True)
    gc = ['-XX:+UseParallelGC'] if workers > 1 else ['-XX:+UseSerialGC', '-XX:TieredStopAtLevel=1', '-XX:CICompilerCount=1']
    cmd = ['java'] + gc + ['-Xmx' + xmx, '-Xss64m', '-cp', JAR, 'tlc2.TLC',
           '-workers', str(workers), '-metadir', metadir, '-config', cfg] + (extra or []) + [module]
    try:
        p = subprocess.run(cmd, cwd=SPEC, env=e, stdout=subprocess.PIPE, stderr=subprocess.STDOUT,
                           text=True, timeout=timeout)
    except subprocess.TimeoutExpired:
        raise Machinery('TLC timeout: %s %s' % (module, cfg))
    finally:
        shutil.rmtree(metadir, ignore_errors=True)
    return p.returncode, p.stdout


STAT_RE = re.compile(r'(\d+) states generated, (\d+) distinct states found')


def tlc_stats(out):
    m = None
    for m in STAT_RE.finditer(out):
        pass
    if not m:
        return 0, 0
    return int(m.group(2)), int(m.group(1))     # distinct states, generated (transitions)


def model_check(module, cfg, work, workers=NCPU, extra=None, timeout=3000, expect_violation=False, xmx='8g'):
    """Run a bounded model-checking configuration.  Returns (states, transitions, output)."""
    t0 = time.time()
    rc, out = run_tlc(module, cfg, os.path.join(work, 'md-' + os.path.basename(cfg)), workers=workers,
                      extra=extra, timeout=timeout, xmx=xmx)
    st, tr = tlc_stats(out)
    ok = ('Model checking completed. No error has been found.' in out)
    log('[tlc %s] rc=%d states=%d %.1fs' % (os.path.basename(cfg), rc, st, time.time() - t0))
    if expect_violation:
        if 'is violated' not in out:
            log(out[-3000:])
            raise Machinery('negative configuration %s was not refuted by TLC' % cfg)
        return st, tr, out
    if not ok:
        log(out[-6000:])
        return st, tr, out
    return st, tr, out


# ---------------------------------------------------------------------------
# running scripts against the real library
# ---------------------------------------------------------------------------
def run_one(args):
    bindir, prog, script, trace, lifecycle, timeout, envx = args
    try:
        os.remove(trace)
    except FileNotFoundError:
        pass
    cmd = [os.path.join(bindir, prog), script, trace] + (['lifecycle'] if lifecycle else [])
    env = dict(os.environ)
    env['ASAN_OPTIONS'] = 'detect_leaks=0:abort_on_error=1:allocator_may_return_null=1'
    if envx:
        env.update(envx)
    try:
        p = subprocess.run(cmd, stdout=subprocess.PIPE, stderr=subprocess.PIPE, text=True, timeout=timeout, env=env)
        rc = p.returncode
        err = p.stderr[-2000:]
    except subprocess.TimeoutExpired:
        rc = -999
        err = 'timeout'
    if rc in (0, 3):
        return (script, trace, 0, err)
    if rc in (2, 4):
        return (script, trace, rc, err)        # harness error: machinery failure
    # the library did not return (timeout) or died in a way the in-process
    # handler could not log (stack overflow, sanitizer abort): close the trace
    # with a Crash event so that the execution is rejected by the specification
    what = ('timeout after %ds' % timeout) if rc == -999 else \
           ('abnormal exit %d: ' % rc + re.sub(r'[^A-Za-z0-9_ .:/()=+-]', ' ', err)[-300:])
    with open(trace, 'a') as f:
        f.write(json.dumps({'e': 'Crash', 'q': 0, 'sig': rc, 'cmd': what}) + '\n')
    return (script, trace, 0, err)


def run_scripts(bindir, scripts, work, prog='mdrive', lifecycle=False, timeout=120, envx=None):
    """scripts: list of (name, text).  Returns list of trace paths (same order)."""
    sdir = os.path.join(work, 'scripts')
    tdir = os.path.join(work, 'traces')
    shutil.rmtree(sdir, ignore_errors=True)
    shutil.rmtree(tdir, ignore_errors=True)
    os.makedirs(sdir)
    os.makedirs(tdir)
    jobs = []
    for name, text in scripts:
        sp = os.path.join(sdir, name + '.txt')
        with open(sp, 'w') as f:
            f.write(text)
        jobs.append((bindir, prog, sp, os.path.join(tdir, name + '.ndjson'), lifecycle, timeout, envx))
    t0 = time.time()
    out = []
    with cf.ThreadPoolExecutor(max_workers=NCPU) as ex:
        for script, trace, rc, err in ex.map(run_one, jobs):
            if rc != 0:
                raise Machinery('driver failed on %s (rc=%d): %s' % (script, rc, err))
            out.append(trace)
    log('[drive] %d executions %.1fs' % (len(jobs), time.time() - t0))
    return out


# ---------------------------------------------------------------------------
# trace validation
# ---------------------------------------------------------------------------
RESULT_RE = re.compile(r'<<"RESULT", "(.*)">>')


def validate_shard(args):
    module, cfg, shard, metadir, env = args
    e = {'TRACE': shard, 'KNOWN': os.path.join(VERIF, 'known_findings.json')}
    if env:
        e.update(env)
    rc, out = run_tlc(module, cfg, metadir, env=e, workers=1, timeout=3000)
    m = RESULT_RE.search(out)
    if not m:
        return shard, None, out
    js = m.group(1).encode().decode('unicode_escape')
    res = json.loads(js)
    st, tr = tlc_stats(out)
    res['states'] = st
    res['transitions'] = tr
    return shard, res, out


def validate(traces, module, cfg, work, nshards=None, env=None, tag='api'):
    """Concatenate traces into shards, validate each with TLC.
    Returns (violations, known, states, transitions, nlines) where each violation is
    (property tag, kind, trace path, line-in-trace)."""
    if not traces:
        return [], set(), 0, 0, 0
    nshards = nshards or min(NCPU, max(1, len(traces)))
    sdir = os.path.join(work, 'shards-' + tag)
    shutil.rmtree(sdir, ignore_errors=True)
    os.makedirs(sdir)
    # balance by size
    sized = sorted(((os.path.getsize(t), t) for t in traces), reverse=True)
    bins = [[0, []] for _ in range(nshards)]
    for sz, t in sized:
        b = min(bins, key=lambda x: x[0])
        b[0] += sz
        b[1].append(t)
    jobs = []
    index = {}
    for i, (_, ts) in enumerate(bins):
        if not ts:
            continue
        shard = os.path.join(sdir, 'shard%02d.ndjson' % i)
        lines = 0
        spans = []
        with open(shard, 'w') as out:
            for t in ts:
                with open(t) as f:
                    data = f.read()
                n = data.count('\n')
                spans.append((lines + 1, lines + n, t))
                lines += n
                out.write(data)
        index[shard] = spans
        jobs.append((module, cfg, shard, os.path.join(work, 'md-%s-%02d' % (tag, i)), env))
    t0 = time.time()
    viols, known = [], set()
    states = trans = nlines = 0
    with cf.ThreadPoolExecutor(max_workers=NCPU) as ex:
        results = list(ex.map(validate_shard, jobs))
    for shard, res, out in results:
        if res is None:
            # one retry: distinguishes a TLC hiccup from a reproducible failure
            shard, res, out = validate_shard((module, cfg, shard, os.path.join(work, 'md-retry'), env))
            if res is None:
                log(out[-5000:])
                raise Machinery('TLC did not finish validating %s with %s' % (shard, module))
        states += res['states']
        trans += res['transitions']
        nlines += res['lines']
        for k in res.get('known', []):
            known.add(k)
        for v in res.get('viol', []):
            ln = v['l']
            for a, b, t in index[shard]:
                if a <= ln <= b:
                    viols.append((v['p'], v['k'], t, ln - a + 1))
                    break
    log('[validate %s] %d shards, %d lines, %d states, %.1fs' % (tag, len(jobs), nlines, states, time.time() - t0))
    return viols, known, states, trans, nlines


# ---------------------------------------------------------------------------
# evidence helpers
# ---------------------------------------------------------------------------
def trace_census(traces, nontrivial):
    """evaluations = command events; distinct_nontrivial = distinct command
    events (ignoring sequence numbers, slot numbers and handles) whose result
    is non-trivial by the given rule; plus a few sample lines"""
    evals = 0
    seen = set()
    samples = []
    lifecycle = {'NewNode', 'DelNode', 'Recycle', 'CTAdd', 'CTHit', 'CTDel', 'Reset', 'End', 'Tag'}
    per_event = {}
    for t in traces:
        with open(t) as f:
            for line in f:
                try:
                    ev = json.loads(line)
                except Exception:
                    continue
                e = ev.get('e')
                per_event[e] = per_event.get(e, 0) + 1
                if e in lifecycle:
                    continue
                evals += 1
                if nontrivial(ev):
                    ev.pop('q', None)
                    key = hashlib.sha1(json.dumps(ev, sort_keys=True).encode()).hexdigest()
                    if key not in seen:
                        seen.add(key)
                        if len(samples) < 3 and len(line) < 1500:
                            samples.append(ev)
    return evals, len(seen), samples, per_event


def nontrivial_result(ev):
    """a command whose result is a non-constant function (or a non-empty
    observation for query commands)"""
    r = ev.get('res')
    if isinstance(r, dict) and 'fn' in r:
        return len(set(r['fn'])) > 1
    if isinstance(r, list):
        return any(isinstance(x, dict) and len(set(x.get('fn', []))) > 1 for x in r)
    if ev.get('e') in ('Iter',):
        return len(ev.get('seq', [])) > 0
    if ev.get('e') in ('Card', 'Rng', 'Elem', 'ICard', 'CInt', 'CReal', 'CBool', 'CConst', 'MReq', 'MRec'):
        return ev.get('ok') == 1 or 'err' in ev
    if ev.get('e') == 'Snap':
        return len(ev.get('nodes', [])) > 1
    if ev.get('ok') == 0:
        return True
    return False


def write_evidence(prop, tier, seed, cov, wall, violations, assumptions):
    os.makedirs(os.path.join(VERIF, 'evidence'), exist_ok=True)
    ev = {
        'property_id': prop, 'tier': tier, 'seed': seed, 'level': 'model_checking',
        'coverage': cov, 'assumptions': assumptions, 'wall_s': round(wall, 1), 'violations': violations,
    }
    p = os.path.join(VERIF, 'evidence', prop + '.json')
    with open(p + '.tmp', 'w') as f:
        json.dump(ev, f, indent=1, sort_keys=True)
    os.replace(p + '.tmp', p)


# ---------------------------------------------------------------------------
# known findings
# ---------------------------------------------------------------------------
def load_known():
    p = os.path.join(VERIF, 'known_findings.json')
    with open(p) as f:
        return json.load(f)


# ---------------------------------------------------------------------------
# main
# ---------------------------------------------------------------------------
def save_replay(prop, seed, n, script_of, trace, kind, line, attrs=None):
    d = os.path.join(VERIF, 'replays', '%s-%d-%d' % (prop, seed, n))
    shutil.rmtree(d, ignore_errors=True)
    os.makedirs(d)
    sp = script_of(trace)
    if sp and os.path.exists(sp):
        shutil.copy(sp, os.path.join(d, 'script.txt'))
    shutil.copy(trace, os.path.join(d, 'trace.ndjson'))
    with open(os.path.join(d, 'why.json'), 'w') as f:
        d0 = {'property': prop, 'kind': kind, 'trace_line': line}
        d0.update(attrs or {})
        json.dump(d0, f, indent=1)
    return d


def main(argv):
    import plans
    if len(argv) >= 3 and argv[1] == '--replay':
        return plans.replay(argv[2])
    if len(argv) >= 2 and argv[1] == '--selftest':
        import selftest
        return 1 if (selftest.sany() or selftest.binding()) else 0
    if len(argv) < 3:
        print(__doc__)
        return 2
    prop, tier = argv[1], argv[2]
    seed = int(os.environ.get('VERIF_SEED', '1'))
    t0 = time.time()
    try:
        return plans.run(prop, tier, seed, t0)
    except Machinery as m:
        log('MACHINERY FAILURE: %s' % m)
        return 2


if __name__ == '__main__':
    sys.exit(main(sys.argv))
