"""Per-property plans: what to model-check, what to drive, what to validate."""
import json
import os
import random
import shutil
import sys
import time

import vcheck as V
from vcheck import log, Machinery, VERIF
import gen
from gen import Script, KINDS, INF

PLANS = {}


def plan(prop):
    def deco(fn):
        PLANS[prop] = fn
        return fn
    return deco


# every plan returns a dict:
#   mc        : [(module, cfg, kwargs)]      bounded model checking of the design
#   scripts   : [(name, text)]               executions to run against the code
#   lifecycle : bool                          record node / CT lifecycle events
#   validators: [(module, cfg, tag)]         trace specifications to validate with
#   tags      : set of violation tags that belong to this property
#   rule, assumptions, exhaustive, variant


API = ('MddApiTrace.tla', 'MddApiTrace.cfg', 'api')

BASE_ASSUMPTIONS = [
    'TLC 1.8.0 and the CommunityModules Json/IOUtils overrides are trusted',
    'the driver (harness/mdrive.cc) faithfully records arguments and the results the public API returns; it computes no expected value',
    'function tables are obtained with dd_edge::evaluate at every point of the domain; evaluate is cross-checked against the iterator (C11) and against the node snapshot denotation (C02/C03)',
    'integers stay below 2^30 in magnitude; reals lie on the dyadic grid k/64 where float arithmetic is exact; points whose value leaves the grid are not compared',
    'bounded exploration: exhaustive only for the tiny domains named in the rule, sampled (seeded) elsewhere',
]


def run(prop, tier, seed, t0):
    if prop not in PLANS:
        print('unknown property', prop)
        return 2
    work = os.path.join(VERIF, 'work', '%s-%s' % (prop, tier))
    shutil.rmtree(work, ignore_errors=True)
    os.makedirs(work)
    rng = random.Random(seed * 1000003 + int(prop[1:]))
    P = PLANS[prop](tier, seed, rng)
    bindir = V.build(P.get('variant', 'rel'))

    states = trans = 0
    mc_failed = []
    mc_info = []
    for module, cfg, kw in P.get('mc', []):
        st, tr, out = V.model_check(module, cfg, work, **kw)
        states += st
        trans += tr
        mc_info.append({'config': cfg, 'distinct_states': st, 'states_generated': tr})
        if not kw.get('expect_violation') and 'No error has been found' not in out:
            mc_failed.append((cfg, out))

    scripts = P.get('scripts', [])
    traces = V.run_scripts(bindir, scripts, work, prog=P.get('prog', 'mdrive'), lifecycle=P.get('lifecycle', False),
                           timeout=P.get('timeout', 120)) if scripts else []
    script_of = {}
    for (name, _), t in zip(scripts, traces):
        script_of[t] = os.path.join(work, 'scripts', name + '.txt')

    viols = []
    nlines = 0
    for module, cfg, tag in P.get('validators', []):
        v, k, st, tr, nl = V.validate(traces, module, cfg, work, tag=tag, env=P.get('env'))
        viols += v
        states += st
        trans += tr
        nlines += nl

    tags = set(P['tags']) | {prop, 'CRASH', 'MODEL'}
    mine = [v for v in viols if v[0] in tags]
    others = [v for v in viols if v[0] not in tags]
    if others:
        log('[note] %d observations tagged for other properties (reported by their own checks): %s'
            % (len(others), sorted(set((o[0], o[1]) for o in others))[:8]))

    # MODEL-tagged records mean the specification could not interpret a line:
    # that is a failure of the machinery, not a verdict
    model = [v for v in mine if v[0] == 'MODEL']
    if model:
        raise Machinery('trace lines the specification does not model: %s' % sorted(set(m[1] for m in model))[:5])

    # named deviations (kind "KF:<key>"): a listed key is a known finding,
    # an unlisted one is a violation like any other
    kf = V.load_known()
    listed = {e['key']: e for e in kf.get('findings', [])}
    known = {}
    rest = []
    for v in mine:
        key = v[1][3:] if v[1].startswith('KF:') else None
        if key is not None and key in listed and listed[key]['property'] in tags:
            known.setdefault(key, []).append(v)
        else:
            rest.append(v)
    mine = rest

    nviol = 0
    out_lines = []
    for cfg, out in mc_failed:
        nviol += 1
        d = os.path.join(VERIF, 'replays', '%s-%d-mc' % (prop, seed))
        shutil.rmtree(d, ignore_errors=True)
        os.makedirs(d)
        with open(os.path.join(d, 'tlc-output.txt'), 'w') as f:
            f.write(out)
        out_lines.append('VIOLATION property=%s replay=%s' % (prop, d))
    seen = set()
    for (p, kind, trace, line) in mine:
        key = (p, kind, trace)
        if key in seen:
            continue
        seen.add(key)
        nviol += 1
        if nviol <= 12:
            d = V.save_replay(prop, seed, nviol, lambda t: script_of.get(t), trace, kind, line)
            out_lines.append('VIOLATION property=%s replay=%s' % (prop, d))
            log('  -> %s %s (%s line %d)' % (p, kind, os.path.basename(trace), line))

    for k in sorted(known):
        ent = listed[k]
        out_lines.append('KNOWN-FINDING: property=%s %s [%s; %d occurrences in this run]' % (ent['property'], ent['what'], k, len(known[k])))

    evals, distinct, samples, per_event = V.trace_census(traces, V.nontrivial_result)
    if not samples:
        samples = [{'note': 'model-checking only run', 'configs': mc_info}]
    cov = {
        'states': max(states, 1), 'transitions': max(trans, 1),
        'traces_validated_against_impl': len(traces),
        'samples': samples,
        'evaluations': evals, 'distinct_nontrivial': distinct,
        'rule': P.get('rule', ''),
        'exhaustive': bool(P.get('exhaustive', False)),
        'trace_lines_validated': nlines,
        'events_by_type': per_event,
        'model_checking': mc_info,
        'known_findings_hit': sorted(known),
    }
    V.write_evidence(prop, tier, seed, cov, time.time() - t0, nviol, BASE_ASSUMPTIONS + P.get('assumptions', []))
    for ln in out_lines:
        print(ln)
    print('%s %s: %d executions, %d trace lines, %d TLC states, %d violations, %d known findings, %.0fs'
          % (prop, tier, len(traces), nlines, states, nviol, len(known), time.time() - t0))
    if not os.environ.get('VERIF_KEEP'):
        shutil.rmtree(work, ignore_errors=True)
    return 1 if nviol else 0


def replay(path):
    """re-execute a saved script against the current tree and re-validate"""
    path = path.rstrip('/')
    why = json.load(open(os.path.join(path, 'why.json'))) if os.path.exists(os.path.join(path, 'why.json')) else {}
    prop = why.get('property', os.path.basename(path).split('-')[0])
    sp = os.path.join(path, 'script.txt')
    if not os.path.exists(sp):
        print(open(os.path.join(path, 'tlc-output.txt')).read()[-3000:])
        return 1
    work = os.path.join(VERIF, 'work', 'replay-%d' % os.getpid())
    os.makedirs(work, exist_ok=True)
    try:
        bindir = V.build('rel')
        P = PLANS[prop]('quick', 1, random.Random(1)) if prop in PLANS else {}
        traces = V.run_scripts(bindir, [('replay', open(sp).read())], work, lifecycle=P.get('lifecycle', False))
        bad = 0
        for module, cfg, tag in P.get('validators', [API]):
            v, k, st, tr, nl = V.validate(traces, module, cfg, work, tag=tag, nshards=1)
            for (p, kind, t, line) in v:
                print('replay: %s %s at trace line %d' % (p, kind, line))
                bad += 1
        print('replay of %s: %d violation records' % (path, bad))
        return 1 if bad else 0
    finally:
        shutil.rmtree(work, ignore_errors=True)


# ---------------------------------------------------------------------------
# C03: construction and evaluation
# ---------------------------------------------------------------------------
def build_kinds():
    return [k for k in KINDS if k != 'idx_s']


def c03_script(rng, sizes, kind, rule, n_cases, exhaustive_single=False, sto='E'):
    S = Script()
    d = S.dom(sizes)
    f = S.forest(d, kind, rule, sto=sto)
    rel = KINDS[kind][0] == 'R'
    pal = gen.palette(kind)
    dflt0 = gen.default_of(kind)
    e = S.new(f)
    if exhaustive_single:
        # every single minterm, one value, transparent default (and, for
        # numeric MT kinds, a second non-transparent default)
        for a in gen.all_minterms(sizes, rel):
            v = rng.choice(pal)
            S.coll(e, f, 'ONE', dflt0, [(v, a)])
    for _ in range(n_cases):
        n = rng.choice([1, 1, 2, 2, 3, 4, 6, 10, 24])
        mts = [(rng.choice(pal), gen.rand_minterm(rng, sizes, rel)) for _ in range(n)]
        mode, dflt = gen.pick_mode_default(rng, kind, [v for v, _ in mts])
        if n == 1 and rng.random() < 0.5:
            mode = 'ONE'
            dflt = rng.choice([dflt0] + ([0] if KINDS[kind][1] != 'B' else []) + ([rng.choice(pal)] if KINDS[kind][1] != 'B' else []))
        S.coll(e, f, mode, dflt, mts)
    # constants
    for v in ([0, 1] if KINDS[kind][1] == 'B' else pal + [0] + ([INF] if KINDS[kind][2] == 'EP' else [])):
        S.add('const %d %d %s' % (e, f, v))
    # variables
    K = len(sizes)
    for vh in range(1, K + 1):
        for pr in ([0, 1] if rel else [0]):
            if KINDS[kind][1] != 'B':
                S.add('var %d %d %d %d 0' % (e, f, vh, pr))
            terms = [rng.choice(pal + [0]) for _ in range(sizes[vh - 1])]
            S.add('var %d %d %d %d %d %s' % (e, f, vh, pr, len(terms), ' '.join(map(str, terms))))
    S.add('snap %d' % f)
    return S.text()


@plan('C03')
def plan_c03(tier, seed, rng):
    scripts = []
    tiny = [[2], [3], [2, 2], [2, 3]]
    n = 0
    for kind in build_kinds():
        for rule in gen.rules_of(kind):
            rel = KINDS[kind][0] == 'R'
            shapes = ([[2], [3], [2, 2]] if rel else tiny) if tier == 'thorough' else [rng.choice([[2], [3]] if rel else tiny)]
            for sizes in shapes:
                scripts.append(('x%03d' % n, c03_script(rng, sizes, kind, rule, 6, exhaustive_single=True)))
                n += 1
            reps = 6 if tier == 'thorough' else 1
            for _ in range(reps):
                sizes = gen.rand_sizes(rng, 16 if rel else 256, maxvars=(3 if rel else 4))
                scripts.append(('r%03d' % n, c03_script(rng, sizes, kind, rule, 40 if tier == 'thorough' else 14,
                                                        sto=rng.choice(['E', 'F', 'S']))))
                n += 1
    return dict(
        scripts=scripts, validators=[API], tags={'C03'},
        rule='every single minterm (fixed / don\'t-care / don\'t-change in every position) on tiny shapes per forest kind x reduction rule, '
             'plus seeded random collections (1..24 overlapping minterms, MAX/MIN/single, defaults allowed by the API), constants and '
             'createEdgeForVar on random shapes up to 4 variables of sizes 2..5; a case is non-trivial when the resulting table is not constant; '
             'distinct = distinct recorded call lines',
        exhaustive=False,
    )


# ---------------------------------------------------------------------------
# C04: set algebra
# ---------------------------------------------------------------------------
def bits_to_coll(bits, sizes, rel):
    """minterm list for the boolean function whose table is bits (rank order)"""
    ds = []
    for s in sizes:
        ds += [s, s] if rel else [s]
    K = len(sizes)
    mts = []
    for r, b in enumerate(bits):
        if not b:
            continue
        x = r
        digs = []
        for s in ds:
            digs.append(x % s)
            x //= s
        if rel:
            un = [digs[2 * k + 1] for k in range(K)]
            pr = [digs[2 * k] for k in range(K)]
            mts.append((1, un + pr))
        else:
            mts.append((1, digs))
    return mts


def c04_script(rng, sizes, rel, forests, cases, clear_between=False, cross=False):
    """forests: list of rule letters for boolean forests over the domain;
    cases: list of (bitsA, bitsB, fa, fb, fr, op)"""
    S = Script()
    d = S.dom(sizes)
    fs = [S.forest(d, 'mtb_r' if rel else 'mtb_s', r) for r in forests]
    if cross:
        frel = [S.forest(d, 'mtb_r', r) for r in ['F', 'Q', 'I']]
    ea = {f: S.new(f) for f in fs}
    eb = {f: S.new(f) for f in fs}
    er = {f: S.new(f) for f in (frel if cross else fs)}
    for (A, B, fa, fb, fr, op) in cases:
        S.coll(ea[fs[fa]], fs[fa], 'MAX', 0, bits_to_coll(A, sizes, rel))
        if op != 'COMPLEMENT':
            S.coll(eb[fs[fb]], fs[fb], 'MAX', 0, bits_to_coll(B, sizes, rel))
            rf = (frel if cross else fs)[fr]
            S.add('bin %s %d %d %d' % (op, er[rf], ea[fs[fa]], eb[fs[fb]]))
            S.add('obs %d %d' % (ea[fs[fa]], eb[fs[fb]]))
        else:
            S.add('un COMPLEMENT %d %d' % (er[fs[fr]], ea[fs[fa]]))
            S.add('obs %d' % ea[fs[fa]])
        if clear_between:
            S.add('clearall')
    for f in fs:
        S.add('snap %d' % f)
    return S.text()


@plan('C04')
def plan_c04(tier, seed, rng):
    scripts = []
    n = 0
    ops = ['UNION', 'INTERSECTION', 'DIFFERENCE']

    def allbits(npts):
        return [[(x >> i) & 1 for i in range(npts)] for x in range(1 << npts)]

    # sets over <2,2>: all 16 x 16 pairs x 3 ops, forest triples from {F, F', Q}
    setF = ['F', 'F', 'Q']
    fn4 = allbits(4)
    triples = [(a, b, c) for a in range(3) for b in range(3) for c in range(3)]
    rng.shuffle(triples)
    use = triples if tier == 'thorough' else triples[:4]
    for (fa, fb, fr) in use:
        cases = [(A, B, fa, fb, fr, op) for A in fn4 for B in fn4 for op in ops]
        cases += [(A, A, fa, fa, fr, 'COMPLEMENT') for A in fn4]
        rng.shuffle(cases)
        scripts.append(('s22_%03d' % n, c04_script(rng, [2, 2], False, setF, cases, clear_between=(n % 2 == 1))))
        n += 1
    # relations over <2>: all 16 x 16 pairs, triples from {I, I', F, Q}; the
    # combinations with two distinct identity-reduced forests are the ones C04
    # names explicitly
    relF = ['I', 'I', 'F', 'Q']
    rt = [(a, b, c) for a in range(4) for b in range(4) for c in range(4)]
    rng.shuffle(rt)
    use = rt if tier == 'thorough' else rt[:6]
    for (fa, fb, fr) in use:
        cases = [(A, B, fa, fb, fr, op) for A in fn4 for B in fn4 for op in ops]
        cases += [(A, A, fa, fa, fr, 'COMPLEMENT') for A in fn4]
        rng.shuffle(cases)
        # one execution per operation family so that a crash in one does not hide the others
        for op in ops + ['COMPLEMENT']:
            sub = [c for c in cases if c[5] == op]
            scripts.append(('r2_%03d_%s' % (n, op[:3]), c04_script(rng, [2], True, relF, sub, clear_between=(n % 2 == 1))))
        n += 1
    # random larger shapes, sets and relations
    reps = 24 if tier == 'thorough' else 6
    for i in range(reps):
        rel = (i % 2 == 1)
        sizes = gen.rand_sizes(rng, 12 if rel else 120, maxvars=(2 if rel else 4), maxsize=4)
        npts = 1
        for s in sizes:
            npts *= s * s if rel else s
        F = relF if rel else setF
        cases = []
        for _ in range(60 if tier == 'thorough' else 30):
            dens = rng.choice([0.1, 0.3, 0.5, 0.8])
            A = [1 if rng.random() < dens else 0 for _ in range(npts)]
            B = [1 if rng.random() < dens else 0 for _ in range(npts)]
            op = rng.choice(ops + ['COMPLEMENT'])
            fa, fb, fr = rng.randrange(len(F)), rng.randrange(len(F)), rng.randrange(len(F))
            cases.append((A, B, fa, fb, fr, op))
        scripts.append(('rnd_%03d' % n, c04_script(rng, sizes, rel, F, cases)))
        n += 1
    # cross product: all pairs of sets over <2,2> (thorough) / sampled, into each relation rule
    for i in range(3 if tier == 'thorough' else 1):
        cases = [(A, B, rng.randrange(3), rng.randrange(3), rng.randrange(3), 'CROSS') for A in fn4 for B in fn4]
        rng.shuffle(cases)
        scripts.append(('x22_%03d' % n, c04_script(rng, [2, 2], False, setF, cases, cross=True)))
        n += 1
    return dict(
        scripts=scripts, validators=[API], tags={'C04', 'HELD'},
        rule='all 16x16 pairs of boolean sets over <2,2> and of boolean relations over <2>, for UNION / INTERSECTION / DIFFERENCE (+ COMPLEMENT of all 16), '
             'with operand/result forests drawn from {fully, second fully, quasi} (sets) and {identity, second identity, fully, quasi} (relations) - '
             'a seeded subset of the forest triples in quick, all 27 / 64 triples in thorough; alternately with a warm compute table and with all tables '
             'cleared after every call; CROSS for all pairs over <2,2>; plus seeded random pairs on shapes up to 4 variables; operands are re-evaluated '
             'after every call (tag HELD); non-trivial = result table not constant',
        exhaustive=(tier == 'thorough'),
    )
