"""Per-property plans: what to model-check, what to drive, what to validate."""
import json
import os
import random
import shutil
import sys
import time

import vcheck as V
from vcheck import log, Machinery, VERIF
import gen
from gen import Script, KINDS, INF

PLANS = {}


def plan(prop):
    def deco(fn):
        PLANS[prop] = fn
        return fn
    return deco


# every plan returns a dict:
#   mc        : [(module, cfg, kwargs)]      bounded model checking of the design
#   scripts   : [(name, text)]               executions to run against the code
#   lifecycle : bool                          record node / CT lifecycle events
#   validators: [(module, cfg, tag)]         trace specifications to validate with
#   tags      : set of violation tags that belong to this property
#   rule, assumptions, exhaustive, variant


API = ('MddApiTrace.tla', 'MddApiTrace.cfg', 'api')
STORE = ('MddStoreTrace.tla', 'MddStoreTrace.cfg', 'store')

BASE_ASSUMPTIONS = [
    'TLC 1.8.0 and the CommunityModules Json/IOUtils overrides are trusted',
    'the driver (harness/mdrive.cc) faithfully records arguments and the results the public API returns; it computes no expected value',
    'function tables are obtained with dd_edge::evaluate at every point of the domain; evaluate is cross-checked against the iterator (C11) and against the node snapshot denotation (C02/C03)',
    'integers stay below 2^30 in magnitude; reals lie on the dyadic grid k/64 where float arithmetic is exact; points whose value leaves the grid are not compared',
    'bounded exploration: exhaustive only for the tiny domains named in the rule, sampled (seeded) elsewhere',
]


def run(prop, tier, seed, t0):
    if prop not in PLANS:
        print('unknown property', prop)
        return 2
    work = os.path.join(VERIF, 'work', '%s-%s' % (prop, tier))
    shutil.rmtree(work, ignore_errors=True)
    os.makedirs(work)
    rng = random.Random(seed * 1000003 + int(prop[1:]))
    P = PLANS[prop](tier, seed, rng)
    bindir = V.build(P.get('variant', 'rel'))

    states = trans = 0
    mc_failed = []
    mc_info = []
    for module, cfg, kw in P.get('mc', []):
        st, tr, out = V.model_check(module, cfg, work, **kw)
        states += st
        trans += tr
        mc_info.append({'config': cfg, 'distinct_states': st, 'states_generated': tr})
        if not kw.get('expect_violation') and 'No error has been found' not in out:
            mc_failed.append((cfg, out))

    scripts = P.get('scripts', [])
    traces = V.run_scripts(bindir, scripts, work, prog=P.get('prog', 'mdrive'), lifecycle=P.get('lifecycle', False),
                           timeout=P.get('timeout', 120)) if scripts else []
    script_of = {}
    for (name, _), t in zip(scripts, traces):
        script_of[t] = os.path.join(work, 'scripts', name + '.txt')

    viols = []
    nlines = 0
    for module, cfg, tag in P.get('validators', []):
        v, k, st, tr, nl = V.validate(traces, module, cfg, work, tag=tag, env=P.get('env'))
        viols += v
        states += st
        trans += tr
        nlines += nl

    # thorough tier of memory-sensitive properties: the same executions once
    # more under AddressSanitizer; a report aborts the process inside a call,
    # the trace ends in a Crash line, and the API validator rejects it
    asan_runs = 0
    if P.get('asan') and tier == 'thorough' and scripts:
        bind2 = V.build('asan')
        work2 = os.path.join(work, 'asan')
        os.makedirs(work2, exist_ok=True)
        # (the one-execution-per-transition scripts of the lifecycle model are very many and very
        # short: a seeded sample of them is repeated under the sanitizer)
        skip = P.get('asan_sample_prefix')
        ascripts = scripts
        if skip:
            rest = [sc for sc in scripts if sc[0].startswith(skip)]
            ascripts = [sc for sc in scripts if not sc[0].startswith(skip)] + random.Random(seed).sample(rest, min(2000, len(rest)))
        traces2 = V.run_scripts(bind2, ascripts, work2, prog=P.get('prog', 'mdrive'), lifecycle=False,
                                timeout=P.get('timeout', 120) * 3)
        for (name, _), t in zip(ascripts, traces2):
            script_of[t] = os.path.join(work2, 'scripts', name + '.txt')
        v, k, st, tr, nl = V.validate(traces2, API[0], API[1], work2, tag='asan', env=P.get('env'))
        viols += v
        states += st
        trans += tr
        nlines += nl
        asan_runs = len(traces2)

    tags = set(P['tags']) | {prop, 'CRASH', 'MODEL'}
    mine = [v for v in viols if v[0] in tags]
    others = [v for v in viols if v[0] not in tags]
    if others:
        log('[note] %d observations tagged for other properties (reported by their own checks): %s'
            % (len(others), sorted(set((o[0], o[1]) for o in others))[:8]))
        for o in others[:3]:
            log('       e.g. %s %s %s line %d' % (o[0], o[1], o[2], o[3]))

    # MODEL-tagged records mean the specification could not interpret a line:
    # that is a failure of the machinery, not a verdict
    model = [v for v in mine if v[0] == 'MODEL']
    if model:
        raise Machinery('trace lines the specification does not model: %s' % sorted(set(m[1] for m in model))[:5])

    # named deviations (kind "KF:<key>"): a listed key is a known finding,
    # an unlisted one is a violation like any other
    kf = V.load_known()
    listed = {e['key']: e for e in kf.get('findings', [])}
    known = {}
    rest = []
    for v in mine:
        key = v[1][3:] if v[1].startswith('KF:') else None
        if key is not None and key in listed and listed[key]['property'] in tags:
            known.setdefault(key, []).append(v)
        else:
            rest.append(v)
    mine = rest

    nviol = 0
    out_lines = []
    for cfg, out in mc_failed:
        nviol += 1
        d = os.path.join(VERIF, 'replays', '%s-%d-mc' % (prop, seed))
        shutil.rmtree(d, ignore_errors=True)
        os.makedirs(d)
        with open(os.path.join(d, 'tlc-output.txt'), 'w') as f:
            f.write(out)
        out_lines.append('VIOLATION property=%s replay=%s' % (prop, d))
    seen = set()
    for (p, kind, trace, line) in mine:
        key = (p, kind, trace)
        if key in seen:
            continue
        seen.add(key)
        nviol += 1
        if nviol <= 12:
            d = V.save_replay(prop, seed, nviol, lambda t: script_of.get(t), trace, kind, line,
                              attrs={'prog': P.get('prog', 'mdrive'), 'lifecycle': bool(P.get('lifecycle', False)),
                                     'validators': [list(v) for v in P.get('validators', [])], 'timeout': P.get('timeout', 120)})
            out_lines.append('VIOLATION property=%s replay=%s' % (prop, d))
            log('  -> %s %s (%s line %d)' % (p, kind, os.path.basename(trace), line))

    for k in sorted(known):
        ent = listed[k]
        out_lines.append('KNOWN-FINDING: property=%s %s [%s; %d occurrences in this run]' % (ent['property'], ent['what'], k, len(known[k])))

    evals, distinct, samples, per_event = V.trace_census(traces, V.nontrivial_result)
    if not samples:
        samples = [{'note': 'model-checking only run', 'configs': mc_info}]
    cov = {
        'states': max(states, 1), 'transitions': max(trans, 1),
        'traces_validated_against_impl': len(traces),
        'samples': samples,
        'evaluations': evals, 'distinct_nontrivial': distinct,
        'rule': P.get('rule', ''),
        'exhaustive': bool(P.get('exhaustive', False)),
        'trace_lines_validated': nlines,
        'events_by_type': per_event,
        'model_checking': mc_info,
        'known_findings_hit': sorted(known),
        'executions_repeated_under_address_sanitizer': asan_runs,
    }
    V.write_evidence(prop, tier, seed, cov, time.time() - t0, nviol, BASE_ASSUMPTIONS + P.get('assumptions', []))
    for ln in out_lines:
        print(ln)
    print('%s %s: %d executions, %d trace lines, %d TLC states, %d violations, %d known findings, %.0fs'
          % (prop, tier, len(traces), nlines, states, nviol, len(known), time.time() - t0))
    if not os.environ.get('VERIF_KEEP'):
        shutil.rmtree(work, ignore_errors=True)
    return 1 if nviol else 0


def replay(path):
    """re-execute a saved script against the current tree and re-validate"""
    path = path.rstrip('/')
    why = json.load(open(os.path.join(path, 'why.json'))) if os.path.exists(os.path.join(path, 'why.json')) else {}
    prop = why.get('property', os.path.basename(path).split('-')[0])
    sp = os.path.join(path, 'script.txt')
    if not os.path.exists(sp):
        print(open(os.path.join(path, 'tlc-output.txt')).read()[-3000:])
        return 1
    work = os.path.join(VERIF, 'work', 'replay-%d' % os.getpid())
    os.makedirs(work, exist_ok=True)
    try:
        bindir = V.build('rel')
        P = {'prog': why.get('prog', 'mdrive'), 'lifecycle': why.get('lifecycle', False),
             'validators': [tuple(v) for v in why.get('validators', [list(API)])], 'timeout': why.get('timeout', 120)}
        traces = V.run_scripts(bindir, [('replay', open(sp).read())], work, prog=P.get('prog', 'mdrive'),
                               lifecycle=P.get('lifecycle', False), timeout=P.get('timeout', 120))
        bad = 0
        for module, cfg, tag in P.get('validators', [API]):
            v, k, st, tr, nl = V.validate(traces, module, cfg, work, tag=tag, nshards=1)
            for (p, kind, t, line) in v:
                print('replay: %s %s at trace line %d' % (p, kind, line))
                bad += 1
        print('replay of %s: %d violation records' % (path, bad))
        return 1 if bad else 0
    finally:
        shutil.rmtree(work, ignore_errors=True)


# ---------------------------------------------------------------------------
# C03: construction and evaluation
# ---------------------------------------------------------------------------
def build_kinds():
    return [k for k in KINDS if k != 'idx_s']


def c03_script(rng, sizes, kind, rule, n_cases, exhaustive_single=False, sto='E'):
    S = Script()
    d = S.dom(sizes)
    f = S.forest(d, kind, rule, sto=sto)
    rel = KINDS[kind][0] == 'R'
    pal = gen.palette(kind)
    dflt0 = gen.default_of(kind)
    e = S.new(f)
    if exhaustive_single:
        # every single minterm, one value, transparent default (and, for
        # numeric MT kinds, a second non-transparent default)
        for a in gen.all_minterms(sizes, rel):
            v = rng.choice(pal)
            S.coll(e, f, 'ONE', dflt0, [(v, a)])
    vpal = pal + ([INF, INF] if KINDS[kind][2] == 'EP' else [])        # +infinity is a legal minterm value in EV+
    for _ in range(n_cases):
        n = rng.choice([1, 1, 2, 2, 3, 4, 6, 10, 24])
        mts = [(rng.choice(vpal), gen.rand_minterm(rng, sizes, rel)) for _ in range(n)]
        mode, dflt = gen.pick_mode_default(rng, kind, [v for v, _ in mts])
        if n == 1 and rng.random() < 0.5:
            mode = 'ONE'
            dflt = rng.choice([dflt0] + ([0] if KINDS[kind][1] != 'B' else []) + ([rng.choice(pal)] if KINDS[kind][1] != 'B' else []))
        S.coll(e, f, mode, dflt, mts)
    # constants
    for v in ([0, 1] if KINDS[kind][1] == 'B' else pal + [0] + ([INF] if KINDS[kind][2] == 'EP' else [])):
        S.add('const %d %d %s' % (e, f, v))
    # variables
    K = len(sizes)
    for vh in range(1, K + 1):
        for pr in ([0, 1] if rel else [0]):
            if KINDS[kind][1] != 'B':
                S.add('var %d %d %d %d 0' % (e, f, vh, pr))
            terms = [rng.choice(pal + [0]) for _ in range(sizes[vh - 1])]
            S.add('var %d %d %d %d %d %s' % (e, f, vh, pr, len(terms), ' '.join(map(str, terms))))
    S.add('snap %d' % f)
    return S.text()


def c03_transparent_script(rng, kind, rule, ncoll):
    """collections in which some minterms carry the forest's *transparent* value
    (0 / false / +infinity) while the default is not transparent, with minterms that are
    don't-care on a suffix of the levels (so that a level has a don't-care group next to
    explicit groups); and empty collections with every default into edges that already
    hold something"""
    sr, rngt, lab = KINDS[kind]
    rel = sr == 'R'
    sizes = rng.choice([[3, 4, 2], [2, 3, 2], [3, 2]]) if not rel else rng.choice([[2, 2], [3, 2], [3]])
    K = len(sizes)
    S = Script()
    d = S.dom(sizes)
    f = S.forest(d, kind, rule, sto=rng.choice(STO))
    es = [S.new(f) for _ in range(3)]
    if rngt == 'B':
        settings = [('MIN', 1, [0]), ('MAX', 0, [1])]
    elif lab == 'MT' and rngt == 'I':
        settings = [('MAX', -7, [0, 0, 1, 3, -7]), ('MIN', 9, [0, 0, 2, 3, 9]), ('MIN', 1000000, [0, -1, 5])]
    elif lab == 'MT':
        settings = [('MAX', -160, [0, 0, 8, 64]), ('MIN', 544, [0, 0, 8, 240])]
    else:   # EV+
        settings = [('MAX', 1, [INF, INF, 2, 5, 100]), ('MAX', -3, [INF, 0, 1]), ('MIN', INF, [INF, 0, 5])]
    for c in range(ncoll):
        mode, dflt, vals = rng.choice(settings)
        mts = []
        for _ in range(rng.choice([2, 3, 5, 8])):
            L = rng.randrange(0, K + 1)                 # levels 1..L are don't-care
            un = [-1 if k < L else (rng.randrange(sizes[k]) if rng.random() < 0.8 else -1) for k in range(K)]
            if rel:
                pr = [-1 if k < L else rng.choice([-1, -2, rng.randrange(sizes[k])]) for k in range(K)]
                un = [(-1 if pr[k] == -2 else un[k]) for k in range(K)]
                a = un + pr
            else:
                a = un
            mts.append((rng.choice(vals), a))
        e = es[c % len(es)]
        S.coll(e, f, mode, dflt, mts)
        if c % 4 == 3:
            # an empty collection: the constant default, into an edge that holds something else
            m2, d2, _ = rng.choice(settings)
            S.coll(es[(c + 1) % len(es)], f, m2, d2, [])
    S.add('obs')
    S.add('snap %d' % f)
    return S.text()


@plan('C03')
def plan_c03(tier, seed, rng):
    scripts = []
    tiny = [[2], [3], [2, 2], [2, 3]]
    n = 0
    for kind in ['mtb_s', 'mti_s', 'mtr_s', 'evp_s', 'mtb_r', 'mti_r', 'evp_r']:
        for rule in gen.rules_of(kind):
            if tier != 'thorough' and rng.random() < 0.35:
                continue
            scripts.append(('t%03d' % n, c03_transparent_script(rng, kind, rule, 24 if tier == 'thorough' else 12)))
            n += 1
    for kind in build_kinds():
        for rule in gen.rules_of(kind):
            rel = KINDS[kind][0] == 'R'
            shapes = ([[2], [3], [2, 2]] if rel else tiny) if tier == 'thorough' else [rng.choice([[2], [3]] if rel else tiny)]
            for sizes in shapes:
                scripts.append(('x%03d' % n, c03_script(rng, sizes, kind, rule, 6, exhaustive_single=True)))
                n += 1
            reps = 6 if tier == 'thorough' else 1
            for _ in range(reps):
                sizes = gen.rand_sizes(rng, 16 if rel else 256, maxvars=(3 if rel else 4))
                scripts.append(('r%03d' % n, c03_script(rng, sizes, kind, rule, 40 if tier == 'thorough' else 14,
                                                        sto=rng.choice(['E', 'F', 'S']))))
                n += 1
    # constructions in forests whose variables were reordered (variable number != level)
    import itertools
    for kind in ['mtb_s', 'mti_s', 'evp_s', 'mti_r']:
        rel = KINDS[kind][0] == 'R'
        K = 2 if rel else 3
        sizes = rng.sample([2, 3, 4], K) if not rel else rng.sample([2, 3], K)
        allp = [p for p in itertools.permutations(range(1, K + 1)) if list(p) != list(range(1, K + 1))]
        scripts.append(('o%03d' % n, c13_script(rng, sizes, kind, rng.choice(gen.rules_of(kind)), 'SD', 'V', rng.sample(allp, min(2, len(allp))))))
        n += 1
    return dict(
        scripts=scripts, validators=[API, STORE], tags={'C03'},
        rule='every single minterm (fixed / don\'t-care / don\'t-change in every position) on tiny shapes per forest kind x reduction rule, '
             'plus seeded random collections (1..24 overlapping minterms, MAX/MIN/single, defaults allowed by the API), constants and '
             'createEdgeForVar on random shapes up to 4 variables of sizes 2..5; collections whose minterms carry the transparent value under a non-transparent default (with don\'t-care suffixes) and empty collections into edges that already hold a function; a case is non-trivial when the resulting table is not constant; '
             'distinct = distinct recorded call lines',
        exhaustive=False,
    )


# ---------------------------------------------------------------------------
# C04: set algebra
# ---------------------------------------------------------------------------
def bits_to_coll(bits, sizes, rel):
    """minterm list for the boolean function whose table is bits (rank order)"""
    ds = []
    for s in sizes:
        ds += [s, s] if rel else [s]
    K = len(sizes)
    mts = []
    for r, b in enumerate(bits):
        if not b:
            continue
        x = r
        digs = []
        for s in ds:
            digs.append(x % s)
            x //= s
        if rel:
            un = [digs[2 * k + 1] for k in range(K)]
            pr = [digs[2 * k] for k in range(K)]
            mts.append((1, un + pr))
        else:
            mts.append((1, digs))
    return mts


def c04_script(rng, sizes, rel, forests, cases, clear_between=False, cross=False):
    """forests: list of rule letters for boolean forests over the domain;
    cases: list of (bitsA, bitsB, fa, fb, fr, op)"""
    S = Script()
    d = S.dom(sizes)
    fs = [S.forest(d, 'mtb_r' if rel else 'mtb_s', r) for r in forests]
    if cross:
        frel = [S.forest(d, 'mtb_r', r) for r in ['F', 'Q', 'I']]
    ea = {f: S.new(f) for f in fs}
    eb = {f: S.new(f) for f in fs}
    er = {f: S.new(f) for f in (frel if cross else fs)}
    for (A, B, fa, fb, fr, op) in cases:
        S.coll(ea[fs[fa]], fs[fa], 'MAX', 0, bits_to_coll(A, sizes, rel))
        if op != 'COMPLEMENT':
            S.coll(eb[fs[fb]], fs[fb], 'MAX', 0, bits_to_coll(B, sizes, rel))
            rf = (frel if cross else fs)[fr]
            S.add('bin %s %d %d %d' % (op, er[rf], ea[fs[fa]], eb[fs[fb]]))
            S.add('obs %d %d' % (ea[fs[fa]], eb[fs[fb]]))
        else:
            S.add('un COMPLEMENT %d %d' % (er[fs[fr]], ea[fs[fa]]))
            S.add('obs %d' % ea[fs[fa]])
        if clear_between:
            S.add('clearall')
    for f in fs:
        S.add('snap %d' % f)
    return S.text()


@plan('C04')
def plan_c04(tier, seed, rng):
    scripts = []
    n = 0
    ops = ['UNION', 'INTERSECTION', 'DIFFERENCE']

    def allbits(npts):
        return [[(x >> i) & 1 for i in range(npts)] for x in range(1 << npts)]

    # sets over <2,2>: all 16 x 16 pairs x 3 ops, forest triples from {F, F', Q}
    setF = ['F', 'F', 'Q']
    fn4 = allbits(4)
    triples = [(a, b, c) for a in range(3) for b in range(3) for c in range(3)]
    rng.shuffle(triples)
    use = triples if tier == 'thorough' else triples[:4]
    for (fa, fb, fr) in use:
        cases = [(A, B, fa, fb, fr, op) for A in fn4 for B in fn4 for op in ops]
        cases += [(A, A, fa, fa, fr, 'COMPLEMENT') for A in fn4]
        rng.shuffle(cases)
        scripts.append(('s22_%03d' % n, c04_script(rng, [2, 2], False, setF, cases, clear_between=(n % 2 == 1))))
        n += 1
    # relations over <2>: all 16 x 16 pairs, triples from {I, I', F, Q}; the
    # combinations with two distinct identity-reduced forests are the ones C04
    # names explicitly
    relF = ['I', 'I', 'F', 'Q']
    rt = [(a, b, c) for a in range(4) for b in range(4) for c in range(4)]
    rng.shuffle(rt)
    use = rt if tier == 'thorough' else rt[:6]
    for (fa, fb, fr) in use:
        cases = [(A, B, fa, fb, fr, op) for A in fn4 for B in fn4 for op in ops]
        cases += [(A, A, fa, fa, fr, 'COMPLEMENT') for A in fn4]
        rng.shuffle(cases)
        # one execution per operation family so that a crash in one does not hide the others
        for op in ops + ['COMPLEMENT']:
            sub = [c for c in cases if c[5] == op]
            scripts.append(('r2_%03d_%s' % (n, op[:3]), c04_script(rng, [2], True, relF, sub, clear_between=(n % 2 == 1))))
        n += 1
    # random larger shapes, sets and relations
    reps = 24 if tier == 'thorough' else 6
    for i in range(reps):
        rel = (i % 2 == 1)
        sizes = gen.rand_sizes(rng, 12 if rel else 120, maxvars=(2 if rel else 4), maxsize=4)
        npts = 1
        for s in sizes:
            npts *= s * s if rel else s
        F = relF if rel else setF
        cases = []
        for _ in range(60 if tier == 'thorough' else 30):
            dens = rng.choice([0.1, 0.3, 0.5, 0.8])
            A = [1 if rng.random() < dens else 0 for _ in range(npts)]
            B = [1 if rng.random() < dens else 0 for _ in range(npts)]
            op = rng.choice(ops + ['COMPLEMENT'])
            fa, fb, fr = rng.randrange(len(F)), rng.randrange(len(F)), rng.randrange(len(F))
            cases.append((A, B, fa, fb, fr, op))
        scripts.append(('rnd_%03d' % n, c04_script(rng, sizes, rel, F, cases)))
        n += 1
    # structured relations over non-uniform shapes: per-level products of identity /
    # unconstrained / arbitrary levels (diagrams that skip levels by identity patterns or
    # redundancy), where a loop bound taken from the wrong level shows
    for i in range(12 if tier == 'thorough' else 4):
        sizes = rng.choice([[3, 2], [2, 3], [4, 2], [2, 4], [2, 2, 2], [3, 2, 2]])
        cases = []
        for _ in range(40 if tier == 'thorough' else 24):
            A = struct_relation(rng, sizes)
            B = struct_relation(rng, sizes) if rng.random() < 0.7 else rand_relation(rng, sizes)
            op = rng.choice(ops + ['COMPLEMENT', 'COMPLEMENT'])
            fa, fb, fr = rng.randrange(len(relF)), rng.randrange(len(relF)), rng.randrange(len(relF))
            cases.append((A, B, fa, fb, fr, op))
        scripts.append(('str_%03d' % n, c04_script(rng, sizes, True, relF, cases)))
        n += 1
    # cross product: all pairs of sets over <2,2> (thorough) / sampled, into each relation rule
    for i in range(3 if tier == 'thorough' else 1):
        cases = [(A, B, rng.randrange(3), rng.randrange(3), rng.randrange(3), 'CROSS') for A in fn4 for B in fn4]
        rng.shuffle(cases)
        scripts.append(('x22_%03d' % n, c04_script(rng, [2, 2], False, setF, cases, cross=True)))
        n += 1
    return dict(
        scripts=scripts, validators=[API], tags={'C04', 'HELD'},
        rule='all 16x16 pairs of boolean sets over <2,2> and of boolean relations over <2>, for UNION / INTERSECTION / DIFFERENCE (+ COMPLEMENT of all 16), '
             'with operand/result forests drawn from {fully, second fully, quasi} (sets) and {identity, second identity, fully, quasi} (relations) - '
             'a seeded subset of the forest triples in quick, all 27 / 64 triples in thorough; alternately with a warm compute table and with all tables '
             'cleared after every call; CROSS for all pairs over <2,2>; plus seeded random pairs on shapes up to 4 variables and structured relations (per-level products of identity / unconstrained / arbitrary levels) over <3,2>, <2,3>, <4,2>, <2,4>, <2,2,2>, <3,2,2>; operands are re-evaluated '
             'after every call (tag HELD); non-trivial = result table not constant',
        exhaustive=(tier == 'thorough'),
    )


# ---------------------------------------------------------------------------
# helpers shared by the function-level plans
# ---------------------------------------------------------------------------
def points_of(sizes, rel):
    n = 1
    for s in sizes:
        n *= s * s if rel else s
    return n


def rank_to_assignment(r, sizes, rel):
    ds = []
    for s in sizes:
        ds += [s, s] if rel else [s]
    digs = []
    x = r
    for s in ds:
        digs.append(x % s)
        x //= s
    K = len(sizes)
    if rel:
        return [digs[2 * k + 1] for k in range(K)] + [digs[2 * k] for k in range(K)]
    return digs


def table_coll(S, e, f, kind, table, sizes):
    """emit a 'coll' command that builds exactly the given table (list of
    script values by rank) in edge e of forest f"""
    sr, rng, lab = KINDS[kind]
    rel = sr == 'R'
    dflt = gen.default_of(kind)
    if lab in ('EP', 'IX'):
        mts = [(v, rank_to_assignment(r, sizes, rel)) for r, v in enumerate(table) if v != INF]
        S.coll(e, f, 'MIN', INF, mts)
    elif rng == 'B':
        mts = [(1, rank_to_assignment(r, sizes, rel)) for r, v in enumerate(table) if v]
        S.coll(e, f, 'MAX', 0, mts)
    else:
        lo = min(table)
        mts = [(v, rank_to_assignment(r, sizes, rel)) for r, v in enumerate(table) if v != lo]
        S.coll(e, f, 'MAX', lo, mts)


def rand_table(rng, kind, npts, pal=None, p_default=0.4):
    pal = pal or (gen.palette(kind) + ([INF] if KINDS[kind][2] in ('EP', 'IX') else []))
    d = gen.default_of(kind)
    if KINDS[kind][1] == 'B':
        dens = rng.choice([0.1, 0.3, 0.5, 0.8])
        return [1 if rng.random() < dens else 0 for _ in range(npts)]
    return [d if rng.random() < p_default else rng.choice(pal) for _ in range(npts)]


ARITH = ['PLUS', 'MINUS', 'MULTIPLY', 'DIVIDE', 'MODULO', 'MAXIMUM', 'MINIMUM', 'DIST_MIN']
CMP = ['EQUAL', 'NOT_EQUAL', 'LESS_THAN', 'LESS_THAN_EQUAL', 'GREATER_THAN', 'GREATER_THAN_EQUAL']
USER = ['U_ABS', 'U_NEG', 'U_EVEN', 'U_INC3', 'U_SQ', 'U_ISPOS']

ARITH_PAL = {
    'mti_s': [-7, -1, 1, 2, 3, 20000], 'mti_r': [-7, -1, 1, 2, 3, 20000],
    'mtr_s': [-160, -8, 8, 64, 240], 'mtr_r': [-160, -8, 8, 64, 240],
    'evp_s': [0, 1, 2, 5, 100, -3, INF], 'evp_r': [0, 1, 2, 5, 100, -3, INF],
    'evt_r': [-128, 32, 64, 256, 8],
}


def arith_ops_for(kind):
    sr, rng, lab = KINDS[kind]
    ops = list(ARITH)
    if lab != 'MT':
        ops.remove('DIST_MIN')
    if rng == 'R':
        ops.remove('MODULO')
    return ops


# ---------------------------------------------------------------------------
# C05: element-wise arithmetic, comparisons, ranges
# ---------------------------------------------------------------------------
def c05_script(rng, sizes, kind, rules, cases, nonzero_div=False):
    """rules: (ra, rb, rr) reduction rules of the operand / result forests (all
    of kind `kind`; distinct forests even when the rule is the same).
    cases: list of (tableA, tableB, op)"""
    S = Script()
    d = S.dom(sizes)
    sr = KINDS[kind][0]
    fa = S.forest(d, kind, rules[0])
    fb = S.forest(d, kind, rules[1])
    fr = S.forest(d, kind, rules[2])
    fbool = S.forest(d, 'mtb_r' if sr == 'R' else 'mtb_s', rng.choice(gen.rules_of('mtb_r' if sr == 'R' else 'mtb_s')))
    fint = S.forest(d, 'mti_r' if sr == 'R' else 'mti_s', rng.choice(gen.rules_of('mti_r' if sr == 'R' else 'mti_s')))
    freal = S.forest(d, 'mtr_r' if sr == 'R' else 'mtr_s', rng.choice(gen.rules_of('mtr_r' if sr == 'R' else 'mtr_s')))
    ea, eb, er = S.new(fa), S.new(fb), S.new(fr)
    ea2 = S.new(fa)
    cres = {'B': S.new(fbool), 'I': S.new(fint), 'R': S.new(freal)}
    for (A, B, op) in cases:
        table_coll(S, ea, fa, kind, A, sizes)
        if op in USER or op in ('DIST_INC', 'RNG'):
            if op == 'RNG':
                S.add('rng MAX %d' % ea)
                S.add('rng MIN %d' % ea)
            elif op in ('U_EVEN', 'U_ISPOS'):
                S.add('un %s %d %d' % (op, cres['B'], ea))
            else:
                # result in the same forest kind: use the b-forest edge of kind `kind`
                S.add('un %s %d %d' % (op, er, ea))
            S.add('obs %d' % ea)
            continue
        if B is None:
            # x op x on the same edge
            S.add('bin %s %d %d %d' % (op, er if op in ARITH else cres[rng.choice('BIR')], ea, ea))
            S.add('obs %d' % ea)
            continue
        table_coll(S, eb, fb, kind, B, sizes)
        if op in ARITH:
            S.add('bin %s %d %d %d' % (op, er, ea, eb))
        else:
            S.add('bin %s %d %d %d' % (op, cres[rng.choice('BIR')], ea, eb))
        S.add('obs %d %d' % (ea, eb))
    return S.text()


@plan('C05')
def plan_c05(tier, seed, rng):
    scripts = []
    n = 0
    kinds = ['mti_s', 'mti_r', 'mtr_s', 'mtr_r', 'evp_s', 'evp_r', 'evt_r']
    for kind in kinds:
        rel = KINDS[kind][0] == 'R'
        pal = ARITH_PAL[kind]
        d = gen.default_of(kind)
        vals = sorted(set(pal + [d]), key=str)
        ops = arith_ops_for(kind) + CMP
        rules = gen.rules_of(kind)
        # exhaustive part: every function over the smallest domain with values
        # from the palette (sets: <2>, 2 points; relations: <2>, 4 points,
        # sampled), every pair, every operation
        import itertools
        if not rel:
            fns = [list(t) for t in itertools.product(vals, repeat=2)]
            pairs = [(a, b) for a in fns for b in fns]
        else:
            fns = [rand_table(rng, kind, 4, pal) for _ in range(40)]
            pairs = [(rng.choice(fns), rng.choice(fns)) for _ in range(400 if tier == 'thorough' else 120)]
        combos = [(a, b, c) for a in rules for b in rules for c in rules]
        rng.shuffle(combos)
        use = combos if tier == 'thorough' else combos[:2]
        for rl in use:
            if tier != 'thorough' and len(pairs) > 200:
                sub = rng.sample(pairs, 200)
            else:
                sub = pairs
            cases = []
            for (a, b) in sub:
                for op in (ops if tier == 'thorough' or rel else rng.sample(ops, 5)):
                    cases.append((a, b, op))
            rng.shuffle(cases)
            # split into several executions so that one crash does not hide the rest
            chunk = 700
            for i in range(0, len(cases), chunk):
                scripts.append(('t%03d' % n, c05_script(rng, [2], kind, rl, cases[i:i + chunk])))
                n += 1
        # random larger shapes; structured patterns that trigger the shortcut
        # predicates (x op x, constant operands, zero / one / infinity operands)
        reps = 8 if tier == 'thorough' else 2
        for _ in range(reps):
            sizes = gen.rand_sizes(rng, 9 if rel else 48, maxvars=(2 if rel else 3), maxsize=4)
            npts = points_of(sizes, rel)
            cases = []
            for _ in range(50 if tier == 'thorough' else 25):
                A = rand_table(rng, kind, npts, pal)
                x = rng.random()
                if x < 0.12:
                    B = None
                elif x < 0.3:
                    B = [rng.choice(vals)] * npts
                elif x < 0.4:
                    A = [rng.choice(vals)] * npts
                    B = rand_table(rng, kind, npts, pal)
                else:
                    B = rand_table(rng, kind, npts, pal)
                cases.append((A, B, rng.choice(ops)))
                if KINDS[kind][2] != 'ET' and rng.random() < 0.3:
                    cases.append((A, None, rng.choice(USER)))
                if kind.startswith('mti') and rng.random() < 0.2:
                    cases.append((A, None, 'DIST_INC'))
                if KINDS[kind][2] == 'MT' and rng.random() < 0.3:
                    cases.append((A, None, 'RNG'))
            rl = (rng.choice(rules), rng.choice(rules), rng.choice(rules))
            scripts.append(('r%03d' % n, c05_script(rng, sizes, kind, rl, cases)))
            n += 1
    # range queries on functions that *share nodes*: g over the lower level (all values of
    # one sign), f = g on the diagonal of the upper level and 0 elsewhere (identity-reduced:
    # the shared node is reached once through skipped levels, once not); both query orders
    for kind in ['mti_r', 'mtr_r']:
        for rep in range(6 if tier == 'thorough' else 2):
            sizes = rng.choice([[2, 2], [3, 2], [2, 3]])
            s1, s2 = sizes
            pos = [v for v in (ARITH_PAL[kind]) if v > 0]
            neg = [v for v in (ARITH_PAL[kind]) if v < 0]
            cases = []
            for sign in (pos, neg, pos):
                low = [[rng.choice(sign) for _ in range(s1)] for _ in range(s1)]     # low[from][to]
                f = [0] * (s1 * s1 * s2 * s2)
                g = [0] * (s1 * s1 * s2 * s2)
                for a1 in range(s1):
                    for b1 in range(s1):
                        for a2 in range(s2):
                            for b2 in range(s2):
                                r = rel_rank([a1, a2], [b1, b2], sizes)
                                g[r] = low[a1][b1]
                                f[r] = low[a1][b1] if a2 == b2 else 0
                pair = [(f, None, 'RNG'), (g, None, 'RNG')]
                if rng.random() < 0.5:
                    pair.reverse()
                cases += pair + [(f, None, 'RNG')]
            scripts.append(('q%03d' % n, c05_script(rng, sizes, kind, ('I', rng.choice('IFQ'), rng.choice('IFQ')), cases)))
            n += 1
    return dict(
        scripts=scripts, validators=[API], tags={'C05', 'HELD'},
        rule='per forest kind (MT integer / MT real / EV+ / EV* ; sets and relations): every pair of functions over <2> with values from a '
             'palette spanning negative, zero, positive, large and (EV+) infinite values (relations: seeded sample of pairs over <2>), every '
             'arithmetic operation the factory builds for the kind and the six comparisons (result in a boolean, integer or real MT forest), '
             'operand/result forests = three distinct forests with reduction rules drawn from the kind\'s rules (all rule triples in thorough); '
             'plus seeded random functions on shapes up to 3 variables with structured operands (x op x, constants, zero/one/infinity), '
             'user-defined unary maps, DIST_INC, MAX_RANGE/MIN_RANGE (also on pairs of functions that share nodes reached once through skipped identity levels and once directly, in both query orders); operands re-read after every call; non-trivial = result not constant, or an error outcome',
        exhaustive=False,
    )


# ---------------------------------------------------------------------------
# C10: copy between forests
# ---------------------------------------------------------------------------
COPY_PAL = {
    'mtb_s': None, 'mtb_r': None,
    'mti_s': [-7, -1, 1, 2, 3, 1000000], 'mti_r': [-7, -1, 1, 2, 3, 1000000],
    'mtr_s': [-160, -128, 8, 64, 240], 'mtr_r': [-160, -128, 8, 64, 240],
    'evp_s': [0, 1, 2, 5, 100, -3, INF], 'evp_r': [0, 1, 2, 5, 100, -3, INF],
    'evt_r': [-128, 32, 64, 256, 8],
}


def c10_script(rng, sizes, src, srule, dst, drule, tables):
    S = Script()
    d = S.dom(sizes)
    fs = S.forest(d, src, srule, sto=rng.choice('EFS'))
    fd = S.forest(d, dst, drule, sto=rng.choice('EFS'))
    a, back, r = S.new(fs), S.new(fs), S.new(fd)
    keep = S.new(fs)
    for T in tables:
        table_coll(S, a, fs, src, T, sizes)
        S.add('un COPY %d %d' % (r, a))
        S.add('un COPY %d %d' % (back, r))
        S.add('obs %d %d' % (a, r))
        if rng.random() < 0.2:
            S.add('asg %d %d' % (keep, a))
    S.add('snap %d' % fs)
    S.add('snap %d' % fd)
    return S.text()


def c10_recycle_script(rng, src, dst, rule, trials):
    """copies around handle recycling: a relation is copied, released so that only its
    root dies (a sibling keeps the lower nodes alive), the caches are cleared, a new
    relation whose root is (nearly) the only new node is built - taking the recycled
    handle - and copied: per-handle state kept from the first copy must not leak"""
    sizes = rng.choice([[3, 3], [2, 3], [3, 2]])
    S = Script()
    d = S.dom(sizes)
    fs = S.forest(d, src, rule, sto=rng.choice('EFS'), dele=rng.choice(['O', 'P']))
    fd = S.forest(d, dst, rule, sto=rng.choice('EFS'))
    x, z, r1, r2 = S.new(fs), S.new(fs), S.new(fd), S.new(fd)
    s1, s2 = sizes
    low_n = s1 * s1
    pal = [v for v in (COPY_PAL.get(src) or [1]) if v not in (INF, gen.default_of(src))] or [1]
    for t in range(trials):
        # a pool of lower-level blocks; a relation = an assignment of blocks to the upper (from, to) pairs
        blocks = [[(rng.choice(pal) if rng.random() < 0.5 else gen.default_of(src)) for _ in range(low_n)] for _ in range(3)]

        def table(assign):
            T = []
            for up in range(s2 * s2):
                T += blocks[assign[up]] if assign[up] >= 0 else [gen.default_of(src)] * low_n
            return T
        base = [rng.choice([-1, 0, 1, 2]) for _ in range(s2 * s2)]
        if all(b < 0 for b in base):
            base[0] = 0
        zed = list(base)
        zed[rng.randrange(len(zed))] = rng.choice([0, 1, 2])
        why = list(base)
        k = rng.randrange(len(why))
        why[k] = (why[k] + 1) % 3 if why[k] >= 0 else rng.choice([0, 1, 2])
        table_coll(S, x, fs, src, table(base), sizes)
        table_coll(S, z, fs, src, table(zed), sizes)
        S.add('un COPY %d %d' % (r1, x))
        S.add('obs %d %d' % (x, r1))
        S.add('attach %d -1' % x)
        S.add('attach %d %d' % (x, fs))
        S.add('clearall')
        table_coll(S, x, fs, src, table(why), sizes)
        S.add('un COPY %d %d' % (r2, x))
        S.add('obs %d %d %d' % (x, r2, z))
    return S.text()


@plan('C10')
def plan_c10(tier, seed, rng):
    scripts = []
    n = 0
    for (src, dst) in [('mtb_r', 'mti_r'), ('mti_r', 'mti_r'), ('mtb_r', 'mtb_r'), ('mti_r', 'mtr_r')]:
        for rule in (['I', 'F', 'Q'] if tier == 'thorough' else ['I', rng.choice('FQ')]):
            scripts.append(('h%03d' % n, c10_recycle_script(rng, src, dst, rule, 12 if tier == 'thorough' else 6)))
            n += 1
    for shape_kinds, rel in ((['mtb_s', 'mti_s', 'mtr_s', 'evp_s'], False),
                             (['mtb_r', 'mti_r', 'mtr_r', 'evp_r', 'evt_r'], True)):
        pairs = [(s, d) for s in shape_kinds for d in shape_kinds]
        for (src, dst) in pairs:
            combos = [(a, b) for a in gen.rules_of(src) for b in gen.rules_of(dst)]
            rng.shuffle(combos)
            for (sr_, dr_) in (combos if tier == 'thorough' else combos[:2]):
                sizes = rng.choice([[2], [3]] if rel else [[2, 2], [2, 3], [3, 2]])
                if tier == 'thorough' and rng.random() < 0.5:
                    sizes = gen.rand_sizes(rng, 16 if rel else 64, maxvars=(2 if rel else 4), maxsize=4)
                npts = points_of(sizes, rel)
                tables = []
                if KINDS[src][1] == 'B' and npts <= 4:
                    tables = [[(x >> i) & 1 for i in range(npts)] for x in range(1 << npts)]
                else:
                    for _ in range(24 if tier == 'thorough' else 10):
                        tables.append(rand_table(rng, src, npts, COPY_PAL[src], p_default=rng.choice([0.2, 0.5, 0.8])))
                    dv = gen.default_of(src)
                    tables.append([dv] * npts)
                    if KINDS[src][1] != 'B':
                        tables.append([rng.choice(COPY_PAL[src])] * npts)
                    else:
                        tables.append([1] * npts)
                scripts.append(('c%03d' % n, c10_script(rng, sizes, src, sr_, dst, dr_, tables)))
                n += 1
    return dict(
        scripts=scripts, validators=[API], tags={'C10', 'HELD'},
        rule='every ordered pair of forest kinds of the same shape (sets: MT boolean/integer/real, EV+; relations: those plus EV*), two distinct '
             'forests even for equal kinds, source/target reduction rules drawn from all rules of the kind (all rule pairs in thorough); functions: all '
             'boolean functions on the smallest shapes, seeded tables from a palette (negative, zero, positive, large, infinity) elsewhere, plus the '
             'constant functions; each function is copied there and back (identity of the round trip is checked against the original edge when the '
             'functions are equal); copies around handle recycling (a copied relation dies except for its lower nodes, caches cleared, a new relation takes the recycled root handle and is copied); non-trivial = result table not constant',
        exhaustive=False,
    )


# ---------------------------------------------------------------------------
# C15: index sets
# ---------------------------------------------------------------------------
def c15_script(rng, sizes, rule, sets):
    S = Script()
    d = S.dom(sizes)
    fs = S.forest(d, 'mtb_s', rule, sto=rng.choice('EFS'))
    fx = S.forest(d, 'idx_s', 'F', sto=rng.choice('EFS'))
    a, ix = S.new(fs), S.new(fx)
    for T in sets:
        table_coll(S, a, fs, 'mtb_s', T, sizes)
        S.add('un TOINDEX %d %d' % (ix, a))
        n = sum(T)
        S.add('icard %d' % ix)
        S.add('card %d' % ix)
        for i in range(-1, n + 2):
            S.add('elem %d %d' % (ix, i))
        S.add('iter %d' % ix)
    S.add('snap %d' % fx)
    return S.text()


@plan('C15')
def plan_c15(tier, seed, rng):
    scripts = []
    n = 0
    shapes = [[2, 2], [2, 3]] + ([[2, 2, 2], [3, 3]] if tier == 'thorough' else [])
    for sizes in shapes:
        npts = points_of(sizes, False)
        allsets = [[(x >> i) & 1 for i in range(npts)] for x in range(1 << npts)]
        for rule in ['F', 'Q']:
            sets = allsets if (npts <= 6 or tier == 'thorough') else rng.sample(allsets, 48) + [allsets[0], allsets[-1]]
            for i in range(0, len(sets), 64):
                scripts.append(('i%03d' % n, c15_script(rng, sizes, rule, sets[i:i + 64])))
                n += 1
    for _ in range(8 if tier == 'thorough' else 3):
        sizes = gen.rand_sizes(rng, 60, maxvars=4, maxsize=4)
        npts = points_of(sizes, False)
        sets = [rand_table(rng, 'mtb_s', npts) for _ in range(12)] + [[0] * npts, [1] * npts]
        scripts.append(('r%03d' % n, c15_script(rng, sizes, rng.choice('FQ'), sets)))
        n += 1
    # wide variables: nodes with many children (look-up by index scans / bisects the children)
    for sizes in ([[12], [3, 10], [11, 3], [2, 9, 2]] if tier == 'thorough' else [rng.choice([[12], [11]]), rng.choice([[3, 10], [11, 3]])]):
        npts = points_of(sizes, False)
        sets = [rand_table(rng, 'mtb_s', npts) for _ in range(6)] + [[1] * npts, [1 if rng.random() < 0.9 else 0 for _ in range(npts)]]
        scripts.append(('w%03d' % n, c15_script(rng, sizes, rng.choice('FQ'), sets)))
        n += 1
    return dict(
        scripts=scripts, validators=[API], tags={'C15'},
        rule='every boolean set over <2,2> and <2,3> (thorough: also <2,2,2> and <3,3>; quick samples <2,3>) including the empty and the full set, in a '
             'fully- and in a quasi-reduced source forest: CONVERT_TO_INDEX_SET evaluated at every point, getElement(i) for every i in -1..n+1, '
             'getIndexSetCardinality of the root, CARDINALITY and iteration of the index set; plus seeded random sets on shapes up to 4 variables and on shapes with a wide variable (9 to 12 values: nodes with many children); '
             'non-trivial = the set is neither empty nor full',
        exhaustive=True,
    )


# ---------------------------------------------------------------------------
# C11: enumeration and counting
# ---------------------------------------------------------------------------
def rand_mask(rng, sizes, rel):
    K = len(sizes)
    un = [rng.choice([-1, -1, rng.randrange(sizes[k])]) for k in range(K)]
    if not rel:
        return un
    pr = [rng.choice([-1, -1, -2, rng.randrange(sizes[k])]) for k in range(K)]
    return un + pr


def c11_script(rng, sizes, kind, rule, tables, all_masks=False):
    S = Script()
    d = S.dom(sizes)
    f = S.forest(d, kind, rule, sto=rng.choice('EFS'))
    rel = KINDS[kind][0] == 'R'
    a = S.new(f)
    for T in tables:
        table_coll(S, a, f, kind, T, sizes)
        S.add('iter %d' % a)
        S.add('card %d' % a)
        if all_masks:
            masks = list(gen.all_minterms(sizes, rel))
        else:
            masks = [rand_mask(rng, sizes, rel) for _ in range(4)]
        for m in masks:
            S.add('iter %d %s' % (a, ' '.join(map(str, m))))
    S.add('iter %d deref' % a)
    S.add('snap %d' % f)
    return S.text()


@plan('C11')
def plan_c11(tier, seed, rng):
    scripts = []
    n = 0
    for kind in [k for k in KINDS if k != 'idx_s']:
        rel = KINDS[kind][0] == 'R'
        for rule in gen.rules_of(kind):
            # tiny shape, every mask
            sizes = [2] if rel else [2, 2]
            npts = points_of(sizes, rel)
            pal = COPY_PAL.get(kind)
            tables = [rand_table(rng, kind, npts, pal, p_default=rng.choice([0.3, 0.6])) for _ in range(10 if tier == 'thorough' else 4)]
            tables += [[gen.default_of(kind)] * npts]
            if KINDS[kind][1] == 'B':
                tables += [[1] * npts]
            scripts.append(('m%03d' % n, c11_script(rng, sizes, kind, rule, tables, all_masks=True)))
            n += 1
            for _ in range(4 if tier == 'thorough' else 1):
                sizes = gen.rand_sizes(rng, 16 if rel else 100, maxvars=(2 if rel else 4), maxsize=4)
                npts = points_of(sizes, rel)
                tables = [rand_table(rng, kind, npts, pal, p_default=rng.choice([0.2, 0.5, 0.9])) for _ in range(12 if tier == 'thorough' else 6)]
                scripts.append(('r%03d' % n, c11_script(rng, sizes, kind, rule, tables)))
                n += 1
    # forests whose variables were reordered (levels and variables differ) with non-uniform sizes
    import itertools
    for kind in ['mtb_s', 'mti_s', 'evp_s', 'mtb_r']:
        rel = KINDS[kind][0] == 'R'
        for rep in range(3 if tier == 'thorough' else 1):
            K = 2 if rel else rng.choice([3, 4])
            sizes = rng.sample([2, 3, 4, 5], K) if not rel else rng.sample([2, 3], K)
            allp = [p for p in itertools.permutations(range(1, K + 1)) if list(p) != list(range(1, K + 1))]
            perms = rng.sample(allp, min(2, len(allp)))
            scripts.append(('o%03d' % n, c13_script(rng, sizes, kind, rng.choice(gen.rules_of(kind)), 'SD', 'V', perms)))
            n += 1
    return dict(
        scripts=scripts, validators=[API, STORE], tags={'C11'},
        rule='per forest kind x reduction rule: seeded functions on the smallest shape with *every* mask (each position fixed / free / unchanged), '
             'and on random shapes up to 4 variables with random masks; the recorded visit sequence (rank, value) must equal the specification\'s sequence '
             'exactly (order, multiplicity, values); CARDINALITY as long / double / mpz; node and edge counts of every result against the reachable '
             'sub-graph of the node snapshot (store-level validator); the same queries after variable reorderings of forests with non-uniform variable sizes; '
             'non-trivial = at least one assignment visited',
        exhaustive=False,
    )


# ---------------------------------------------------------------------------
# C09 / C08 / C20: relations
# ---------------------------------------------------------------------------
def dist_table(rng, kind, npts):
    """initial distance function: some states at distance 0 (or small), the
    rest unreachable (MT: negative, EV+: infinity)"""
    un = INF if KINDS[kind][2] == 'EP' else rng.choice([-1, -1, -5])
    p = rng.choice([0.15, 0.3, 0.6])
    return [rng.choice([0, 0, 0, 1, 3, 40]) if rng.random() < p else un for _ in range(npts)]


def rel_script(rng, sizes, skind, rules, rkind, rrule, cases, clear=False, same=False):
    """skind: kind of the set operand and result (two distinct forests with
    rules[0], rules[1], or one forest if same); rkind/rrule: relation forest.
    cases: (S, R, [ops])"""
    Sx = Script()
    d = Sx.dom(sizes)
    fa = Sx.forest(d, skind, rules[0])
    fr = fa if same else Sx.forest(d, skind, rules[1])
    fm = Sx.forest(d, rkind, rrule)
    a, r, m = Sx.new(fa), Sx.new(fr), Sx.new(fm)
    r2 = Sx.new(fr)
    for (T, R, ops) in cases:
        table_coll(Sx, a, fa, skind, T, sizes)
        table_coll(Sx, m, fm, rkind, R, sizes)
        for op in ops:
            if op == 'MV_MULTIPLY':
                Sx.add('bin %s %d %d %d' % (op, r, m, a))
            else:
                Sx.add('bin %s %d %d %d' % (op, r, a, m))
        Sx.add('obs %d %d' % (a, m))
        if clear:
            Sx.add('clearall')
    Sx.add('snap %d' % fr)
    return Sx.text()


def rel_rank(frm, to, sizes):
    """rank of the relation entry frm -> to (digits by level, level 1 first)"""
    r, mul = 0, 1
    for k, s in enumerate(sizes):
        r += to[k] * mul
        mul *= s
        r += frm[k] * mul
        mul *= s
    return r


def set_digits(r, sizes):
    d = []
    for s in sizes:
        d.append(r % s)
        r //= s
    return d


def struct_relation(rng, sizes, pal=None, types=None):
    """a relation that is a product of per-level relations, each level being the
    identity (x' = x), unconstrained (any x -> any x'), or an arbitrary matrix;
    the value of an entry depends only on the digits of the arbitrary levels.
    These are the relations whose diagrams skip levels (identity-reduced: identity
    levels; fully-reduced: unconstrained levels)."""
    K = len(sizes)
    if types is None:
        types = [rng.choice(['id', 'id', 'full', 'rand']) for _ in range(K)]
        if 'rand' not in types and rng.random() < 0.7:
            types[rng.randrange(K)] = 'rand'
    mats = []
    for k, s in enumerate(sizes):
        if types[k] == 'id':
            mats.append([[1 if i == j else 0 for j in range(s)] for i in range(s)])
        elif types[k] == 'full':
            mats.append([[1] * s for _ in range(s)])
        else:
            dens = rng.choice([0.2, 0.4, 0.7])
            mats.append([[1 if rng.random() < dens else 0 for _ in range(s)] for _ in range(s)])
    n = points_of(sizes, False)
    T = [0] * (n * n)
    vals = {}
    for a in range(n):
        fa = set_digits(a, sizes)
        for b in range(n):
            tb = set_digits(b, sizes)
            if all(mats[k][fa[k]][tb[k]] for k in range(K)):
                key = tuple((fa[k], tb[k]) for k in range(K) if types[k] == 'rand')
                if key not in vals:
                    vals[key] = 1 if pal is None else rng.choice(pal)
                T[rel_rank(fa, tb, sizes)] = vals[key]
    return T


def lift_table(rng, sizes, maker, dep=None):
    """a function over `sizes` that depends only on a random subset of the levels:
    maker(npts) builds a table over the reduced shape, which is then extended"""
    K = len(sizes)
    if dep is None:
        dep = [k for k in range(K) if rng.random() < 0.5]
    sub = [sizes[k] for k in dep]
    base = maker(points_of(sub, False))
    T = []
    for r in range(points_of(sizes, False)):
        d = set_digits(r, sizes)
        x, mul = 0, 1
        for k in dep:
            x += d[k] * mul
            mul *= sizes[k]
        T.append(base[x])
    return T


def rand_relation(rng, sizes, kind='mtb_r', pal=None):
    n = points_of(sizes, False)
    npts = n * n
    style = rng.choice(['sparse', 'dense', 'selfloops', 'deadends', 'product', 'product'])
    if style == 'product' and len(sizes) > 1:
        return struct_relation(rng, sizes, pal)
    dens = {'sparse': 0.08, 'dense': 0.4, 'selfloops': 0.12, 'deadends': 0.3, 'product': 0.2}[style]
    v = lambda: 1 if pal is None else rng.choice(pal)
    T = [v() if rng.random() < dens else 0 for _ in range(npts)]
    if style == 'selfloops':
        for a in range(n):
            d = set_digits(a, sizes)
            if rng.random() < 0.7:
                T[rel_rank(d, d, sizes)] = v()
    if style == 'deadends':
        for a in range(n):
            if rng.random() < 0.4:
                d = set_digits(a, sizes)
                for b in range(n):
                    T[rel_rank(d, set_digits(b, sizes), sizes)] = 0
    return T


@plan('C09')
def plan_c09(tier, seed, rng):
    scripts = []
    n = 0
    IMG = ['POST_IMAGE', 'PRE_IMAGE']
    setups = []
    for rr in ['I', 'F', 'Q']:
        for sr in (['F', 'Q']):
            setups.append(('mtb_s', (sr, rng.choice('FQ')), 'mtb_r', rr, IMG))
        setups.append(('mti_s', (rng.choice('FQ'), 'F'), 'mtb_r', rr, IMG))
        setups.append(('evp_s', (rng.choice('FQ'), rng.choice('FQ')), 'mtb_r', rr, IMG))
        setups.append(('mti_s', (rng.choice('FQ'), rng.choice('FQ')), 'mti_r', rr, ['VM_MULTIPLY', 'MV_MULTIPLY']))
        setups.append(('mtr_s', (rng.choice('FQ'), rng.choice('FQ')), 'mtr_r', rr, ['VM_MULTIPLY', 'MV_MULTIPLY']))
        # matrix of another range type than the vector (the entries are decoded in the matrix forest)
        setups.append((rng.choice(['mtr_s', 'mti_s']), (rng.choice('FQ'), rng.choice('FQ')), rng.choice(['mti_r', 'mtb_r']), rr, ['VM_MULTIPLY', 'MV_MULTIPLY']))
    for (sk, rules, rk, rr, ops) in setups:
        shapes = [[2], [3]] + ([[2, 2], [3, 2], [2, 3], [4, 2], [2, 2, 2], [3, 2, 2]] if tier == 'thorough' else [rng.choice([[3, 2], [4, 2]])] + rng.sample([[2, 3], [2, 2, 2], [3, 2, 2]], 1))
        for sizes in shapes:
            ns = points_of(sizes, False)
            cases = []
            reps = 40 if tier == 'thorough' else 28
            if sizes == [2] and sk == 'mtb_s':
                # exhaustive: every set x every relation
                for s in range(4):
                    for r in range(16):
                        cases.append(([(s >> i) & 1 for i in range(2)], [(r >> i) & 1 for i in range(4)], ops))
            else:
                for _ in range(reps):
                    if sk == 'mtb_s':
                        mk = lambda npts: rand_table(rng, sk, npts)
                    elif 'MULTIPLY' in ops[0]:
                        mk = lambda npts: rand_table(rng, sk, npts, [-3, 1, 2, 5] if sk == 'mti_s' else [-128, 32, 64, 96], p_default=0.4)
                    else:
                        mk = lambda npts: dist_table(rng, sk, npts)
                    # half of the operands ignore some levels (diagrams that skip levels)
                    T = lift_table(rng, sizes, mk) if (len(sizes) > 1 and rng.random() < 0.5) else mk(ns)
                    if rk == 'mtb_r':
                        R = rand_relation(rng, sizes)
                    else:
                        R = rand_relation(rng, sizes, rk, [-2, 1, 3, 4] if rk == 'mti_r' else [-64, 32, 64, 192])
                    cases.append((T, R, ops))
            scripts.append(('g%03d' % n, rel_script(rng, sizes, sk, rules, rk, rr, cases, clear=(n % 3 == 0))))
            n += 1
    # the level-skipping family: operand and relation both ignore the upper
    # levels (set: independent of them, in a fully-reduced forest; relation:
    # identity or unconstrained on them), over shapes whose upper variables are
    # smaller than the lower ones, so that a recursion entered at level L reaches
    # nodes at a level of a different size
    skip = [('mtb_s', 'mtb_r', IMG), ('mti_s', 'mtb_r', IMG), ('evp_s', 'mtb_r', IMG),
            ('mti_s', 'mti_r', ['VM_MULTIPLY', 'MV_MULTIPLY'])]
    for (sk, rk, ops) in skip:
        for rr in ['I', 'F']:
            sizes = rng.choice([[4, 2], [3, 2], [3, 2, 2], [3, 4, 2]])
            K = len(sizes)
            cases = []
            for _ in range(24 if tier == 'thorough' else 10):
                low = rng.randrange(1, K)          # levels 1..low are the ones that matter
                if sk == 'mtb_s':
                    mk = lambda npts: rand_table(rng, sk, npts)
                elif 'MULTIPLY' in ops[0]:
                    mk = lambda npts: rand_table(rng, sk, npts, [-3, 1, 2, 5], p_default=0.3)
                else:
                    mk = lambda npts: dist_table(rng, sk, npts)
                T = lift_table(rng, sizes, mk, dep=list(range(low)))
                up = 'id' if rr == 'I' else rng.choice(['id', 'full'])
                types = ['rand'] * low + [rng.choice([up, up, 'rand']) if k > low else up for k in range(low, K)]
                pal = None if rk == 'mtb_r' else [-2, 1, 3, 4]
                cases.append((T, struct_relation(rng, sizes, pal, types=types), ops))
            scripts.append(('k%03d' % n, rel_script(rng, sizes, sk, ('F', 'F' if sk == 'mti_s' and ops is IMG else rng.choice('FQ')), rk, rr, cases, clear=(n % 2 == 0))))
            n += 1
    return dict(
        scripts=scripts, validators=[API], tags={'C09', 'HELD'},
        rule='POST_IMAGE / PRE_IMAGE for boolean sets (every set x every relation over <2>; seeded pairs over <3>, <2,2>, <3,2>, <2,3>, <2,2,2>), '
             'MT-integer distance functions (result forest fully reduced) and EV+ distance functions, relation forests identity-, fully- and quasi-reduced; '
             'VM_MULTIPLY / MV_MULTIPLY for integer and (dyadic) real vectors and matrices; relation families: sparse, dense, self-loops, dead ends, per-level products (identity / unconstrained / arbitrary levels); '
             'operands that ignore some levels; a level-skipping family over non-uniform shapes <4,2>, <3,2>, <3,2,2>, <3,4,2>; '
             'operands re-read after every call; non-trivial = result not constant',
        exhaustive=False,
    )


REACH = ['REACH_FS_F', 'REACH_FS_B', 'REACH_NOFS_F', 'REACH_NOFS_B', 'REACH_SAT_F', 'REACH_SAT_B']


def c08_pool_script(rng, sizes, sk, srule, rr, ncases):
    S = Script()
    d = S.dom(sizes)
    fa = S.forest(d, sk, srule)
    fm = S.forest(d, 'mtb_r', rr)
    a, m = S.new(fa), S.new(fm)
    res = [S.new(fa) for _ in range(6)]
    ns = points_of(sizes, False)
    pool = [rand_event(rng, sizes) for _ in range(5)]
    # make sure some events are topped below the top level and some at it
    pool[0] = rand_event(rng, sizes, top=len(sizes) - 1)
    pool[1] = rand_event(rng, sizes, top=len(sizes) - 2)
    pool[2] = rand_event(rng, sizes, top=len(sizes) - 2)
    ops = ['REACH_SAT_F'] * 5 + ['REACH_SAT_B'] + (['REACH_NOFS_F'] if sk == 'mtb_s' else [])
    prev = None
    for c in range(ncases):
        if c % 8 == 0:
            if sk == 'mtb_s':
                # few initial states: what is reachable then depends on every event
                T = [0] * ns
                for x in rng.sample(range(ns), rng.choice([1, 1, 2, 3])):
                    T[x] = 1
            else:
                T = dist_table(rng, sk, ns)
            table_coll(S, a, fa, sk, T, sizes)
        if prev is not None and rng.random() < 0.85:
            # differ from the previous relation by exactly one event
            sub = set(prev)
            e = rng.randrange(len(pool))
            sub.symmetric_difference_update({e})
            if not sub:
                sub = {e}
        else:
            sub = set(x for x in range(len(pool)) if rng.random() < 0.5) or {0}
        prev = sub
        R = [0] * (ns * ns)
        for e in sub:
            for x, v in enumerate(pool[e]):
                if v:
                    R[x] = 1
        table_coll(S, m, fm, 'mtb_r', R, sizes)
        S.add('bin %s %d %d %d' % (rng.choice(ops), res[c % len(res)], a, m))
        S.add('obs %d %d' % (a, m))
    S.add('obs')
    return S.text()


@plan('C08')
def plan_c08(tier, seed, rng):
    scripts = []
    n = 0
    setups = []
    DOPS = ['REACH_NOFS_F', 'REACH_NOFS_B', 'REACH_SAT_F', 'REACH_SAT_B']
    for rr in ['I', 'F', 'Q']:
        for same in (True, False):
            setups.append(('mtb_s', ('F', 'F'), rr, REACH, same))
            setups.append(('mtb_s', ('Q', rng.choice('FQ')), rr, REACH, same))
            setups.append(('mti_s', ('F', 'F'), rr, DOPS, same))
            setups.append(('evp_s', (rng.choice('FQ'), rng.choice('FQ')), rr, DOPS, same))
        setups.append(('mti_s', ('Q', 'F'), rr, DOPS, False))
    for (sk, rules, rr, ops, same) in setups:
        shapes = [[2], [3]] + ([[2, 2], [3, 2], [2, 2, 2]] if tier == 'thorough' else [rng.choice([[2, 2], [3, 2], [2, 3]])])
        for sizes in shapes:
            ns = points_of(sizes, False)
            cases = []
            if sizes == [2] and sk == 'mtb_s':
                for s in range(4):
                    for r in range(16):
                        cases.append(([(s >> i) & 1 for i in range(2)], [(r >> i) & 1 for i in range(4)], ops))
            else:
                for _ in range(30 if tier == 'thorough' else 10):
                    T = rand_table(rng, sk, ns) if sk == 'mtb_s' else dist_table(rng, sk, ns)
                    cases.append((T, rand_relation(rng, sizes), ops))
            # sequences of calls on different relations in the same forests,
            # nothing cleared in between (the relation split cached in the
            # saturation operation is reused across calls)
            scripts.append(('q%03d' % n, rel_script(rng, sizes, sk, rules, 'mtb_r', rr, cases, clear=False, same=same)))
            n += 1
    # relations assembled from a fixed pool of events: consecutive calls see relations that
    # share sub-relations (and differ in the events topped at one level), on the same
    # initial set, with the earlier results still held - the situation in which an entry
    # of the cross-call caches is found again
    for rr in ['I', 'I', 'I', 'F'] if tier != 'thorough' else ['I', 'I', 'I', 'I', 'I', 'I', 'F', 'Q']:
        for sk in ['mtb_s', 'mtb_s', rng.choice(['evp_s', 'mti_s'])]:
            sizes = rng.choice([[3, 3, 3], [2, 3, 2], [2, 2, 2], [3, 2, 3]])
            scripts.append(('p%03d' % n, c08_pool_script(rng, sizes, sk, 'F' if sk == 'mti_s' else rng.choice('FQ'), rr, 40 if tier == 'thorough' else 16)))
            n += 1
    return dict(
        scripts=scripts, validators=[API], tags={'C08', 'HELD'},
        mc=[('SaturationMC.tla', 'SaturationMC.cfg', {})] + ([('SaturationMC.tla', 'SaturationMC_bug.cfg', {'expect_violation': True})] if tier == 'thorough' else []),
        rule='model: Saturation.tla - the saturation algorithm with its cross-call recFire cache on a 2-variable domain, every sequence of two calls over 15 relations '
             'x 9 initial sets returns the least fixed point when the cache key includes the at-or-below relation (and TLC refutes the key without it); '
             'implementation: REACHABLE_TRAD_FS / TRAD_NOFS / SATUR, forward and backward: every initial set x every relation over <2>; seeded (set, relation) pairs over '
             '<3>, <2,2>, <3,2>, <2,3>, <2,2,2> with relation families sparse / dense / self-loops / dead ends; boolean sets, MT-integer distance and EV+ '
             'distance functions (NOFS and SATUR); relation forests identity-, fully- and quasi-reduced; calls are issued in sequence in the same forests '
             'with nothing cleared in between; sequences over <3,3,3>, <2,3,2>, <2,2,2>, <3,2,3> whose relations are unions of subsets of one pool of five events (consecutive relations differ by one event, same initial set, earlier results still held); all algorithms on one (set, relation) write into the same result forest so that their results are compared '
             'for identity (C01 tag) as well as with the least fixed point computed by TLC; non-trivial = result not constant',
        exhaustive=False,
    )


def c20_script(rng, sizes, rules, rrule, cases):
    """cases: (init table, [event tables], mode, split)"""
    S = Script()
    d = S.dom(sizes)
    fa = S.forest(d, 'mtb_s', rules[0])
    fr = fa         # the saturation operation requires one forest for the initial set and the result
    fother = S.forest(d, 'mtb_s', rules[1])
    fm = S.forest(d, 'mtb_r', rrule)
    a, r, r2 = S.new(fa), S.new(fr), S.new(fr)
    rother = S.new(fother)
    union = S.new(fm)
    evs = [S.new(fm) for _ in range(6)]
    for (T, events, mode, split) in cases:
        table_coll(S, a, fa, 'mtb_s', T, sizes)
        for i, E in enumerate(events):
            table_coll(S, evs[i], fm, 'mtb_r', E, sizes)
        S.add('sat %d %d %s %d %d %s' % (r, a, mode, split, len(events), ' '.join(str(evs[i]) for i in range(len(events)))))
        # monolithic reachability on the union relation, into the same forest
        S.add('asg %d %d' % (union, evs[0]))
        for i in range(1, len(events)):
            S.add('bin UNION %d %d %d' % (union, union, evs[i]))
        S.add('bin REACH_NOFS_F %d %d %d' % (r2, a, union))
        S.add('obs %d' % a)
    # documented restriction: a result in another forest is refused
    S.add('sat %d %d BYEV 0 1 %d' % (rother, a, evs[0]))
    S.add('obs %d' % a)
    return S.text()


def rand_event(rng, sizes, top=None):
    """an event: touches a subset of the variables; on the others it is the
    identity (don't change) - built as a table"""
    K = len(sizes)
    n = points_of(sizes, False)
    touched = [k for k in range(K) if rng.random() < 0.6] or [rng.randrange(K)]
    if top is not None:         # the highest variable the event touches
        touched = [k for k in touched if k < top] + [top]
    # local transitions per touched variable
    local = {}
    for k in touched:
        s = sizes[k]
        local[k] = [(i, j) for i in range(s) for j in range(s) if rng.random() < 0.35] or [(0, s - 1)]
    if K > 1 and top is None and rng.random() < 0.35:
        # a guarded event: enabled only for some values of its top variable, which it
        # leaves unchanged (empty rows next to a common diagonal), acting below it
        top = rng.randrange(1, K)
        for k in range(top + 1, K):
            local.pop(k, None)
        en = [i for i in range(sizes[top]) if rng.random() < 0.5] or [rng.randrange(sizes[top])]
        if len(en) == sizes[top]:
            en.pop(rng.randrange(len(en)))
        local[top] = [(i, i) for i in en]
        if not any(k < top for k in local):
            kk = rng.randrange(top)
            local[kk] = [(i, j) for i in range(sizes[kk]) for j in range(sizes[kk]) if rng.random() < 0.4] or [(0, sizes[kk] - 1)]
    T = [0] * (n * n)
    # enumerate pairs (x, y)
    import itertools
    for x in itertools.product(*[range(s) for s in sizes]):
        for y in itertools.product(*[range(s) for s in sizes]):
            ok = True
            for k in range(K):
                if k in local:
                    if (x[k], y[k]) not in local[k]:
                        ok = False
                        break
                elif x[k] != y[k]:
                    ok = False
                    break
            if ok:
                # rank: level K most significant, digits x_K x'_K ... x_1 x'_1
                r = 0
                for k in range(K - 1, -1, -1):
                    r = (r * sizes[k] + x[k]) * sizes[k] + y[k]
                T[r] = 1
    return T


@plan('C20')
def plan_c20(tier, seed, rng):
    scripts = []
    n = 0
    shapes = [[2, 2], [3, 2], [2, 2, 2]] + ([[2, 3, 2], [3, 2, 2]] if tier == 'thorough' else [])
    for sizes in shapes:
        ns = points_of(sizes, False)
        for rrule in ['I', 'F', 'Q']:
            if len(sizes) > 2 and rrule != 'I' and tier != 'thorough':
                continue
            for mode in ['BYEV', 'BYLV']:
                for split in (range(5) if mode == 'BYLV' else [0]):
                    cases = []
                    for _ in range(12 if tier == 'thorough' else (10 if len(sizes) > 2 else 5)):
                        nev = rng.randint(1, 4)
                        events = [rand_event(rng, sizes) for _ in range(nev)]
                        if rng.random() < 0.2:
                            events[rng.randrange(nev)] = [0] * (ns * ns)        # an empty event
                        style = rng.random()
                        if len(sizes) > 2 and style > 0.7:
                            # one lower sub-diagram reached twice: below a node of the middle level
                            # and by an edge that skips that level
                            K = len(sizes)
                            low = [rng.choice([0, 1]) for _ in range(points_of(sizes[:K - 2], False))]
                            if not any(low):
                                low[rng.randrange(len(low))] = 1
                            ta, tb = rng.sample(range(sizes[K - 1]), 2)
                            mid = rng.randrange(sizes[K - 2])
                            T = []
                            for r in range(ns):
                                dg = set_digits(r, sizes)
                                lowrank = r % len(low)
                                inA = dg[K - 1] == ta and dg[K - 2] == mid and low[lowrank]
                                inB = dg[K - 1] == tb and low[lowrank]
                                T.append(1 if (inA or inB) else 0)
                            if rng.random() < 0.7:
                                # make sure one event is topped at the skipped level
                                events[rng.randrange(nev)] = rand_event(rng, sizes, top=K - 2)
                        elif style < 0.4:
                            T = rand_table(rng, 'mtb_s', ns)
                        elif style < 0.7:
                            # a set that ignores some variables (skipped levels in a fully-reduced forest)
                            T = lift_table(rng, sizes, lambda npts: rand_table(rng, 'mtb_s', npts))
                        else:
                            # a union of two cubes: shared nodes reached at different levels
                            T = [0] * ns
                            for _c in range(2):
                                cube = [rng.choice([None, rng.randrange(sz)]) for sz in sizes]
                                for r in range(ns):
                                    dg = set_digits(r, sizes)
                                    if all(c is None or c == dg[k] for k, c in enumerate(cube)):
                                        T[r] = 1
                        cases.append((T, events, mode, split))
                    scripts.append(('e%03d' % n, c20_script(rng, sizes, (('F' if len(sizes) > 2 else rng.choice('FQ')), rng.choice('FQ')), rrule, cases)))
                    n += 1
    return dict(
        scripts=scripts, validators=[API], tags={'C20', 'HELD'},
        rule='lists of 1..4 event relations over <2,2>, <3,2> (thorough: <2,2,2>, <2,3,2>): each event changes a random subset of the variables by random '
             'local transitions and leaves the others unchanged (overlapping and disjoint supports, self-loops, events whose top variable is unchanged, '
             'empty events, guarded events: enabled for some values of their top variable, which they leave unchanged); initial sets: random, independent of some variables, unions of two cubes; quick adds <2,2,2> with an identity-reduced relation forest and a fully-reduced set forest; pregen_relation by events and by levels with each of the five splitting options; relation forests '
             'identity-, fully- and quasi-reduced; SATURATION_FORWARD must equal the least fixed point TLC computes for the union relation and be the '
             'identical edge to REACHABLE_TRAD_NOFS on the union relation computed into the same forest; non-trivial = result not constant',
        exhaustive=False,
    )


# ---------------------------------------------------------------------------
# random operation histories (C01, C02, C06, C07, C12, C13, C16 drivers)
# ---------------------------------------------------------------------------
SETALG = ['UNION', 'INTERSECTION', 'DIFFERENCE']
NUMOPS = ['PLUS', 'MINUS', 'MULTIPLY', 'MAXIMUM', 'MINIMUM']


def history_script(rng, sizes, forests, steps, snap_every=12, ct=None, final_reclaim=True,
                   slots_per_forest=4, allow_bulk=False, extra=None, snap_all=True, p_clear=0.05, p_reorder=0.0):
    """forests: list of dicts(kind, rule, sto, mm, dele).  Returns script text.
    Random mix of constructions, operations within and across forests of the
    same shape, edge copies / assignments / releases, cache maintenance."""
    S = Script(ct=ct)
    d = S.dom(sizes)
    F = []
    for fo in forests:
        f = S.forest(d, fo['kind'], fo.get('rule', 'F'), sto=fo.get('sto', 'E'), mm=fo.get('mm', 'OG'), dele=fo.get('dele', 'O'),
                     swap=fo.get('swap', 'V'), heur=fo.get('heur', 'SD'))
        F.append(f)
    kind_of = {f: forests[i]['kind'] for i, f in enumerate(F)}
    rel_of = {f: KINDS[kind_of[f]][0] == 'R' for f in F}
    var_sizes = list(sizes)            # sizes by variable; `sizes` below is by level of the (single) reordered forest
    l2v = list(range(1, len(sizes) + 1))
    slots = {f: [S.new(f) for _ in range(slots_per_forest)] for f in F}
    live = {f: list(slots[f]) for f in F}

    def pick(f):
        return rng.choice(live[f])

    def pal(kind):
        return ARITH_PAL.get(kind) or COPY_PAL.get(kind)

    for step in range(steps):
        f = rng.choice(F)
        kind = kind_of[f]
        rel = rel_of[f]
        npts = points_of(sizes, rel)
        r = rng.random()
        if not live[f]:
            s = S.new(f)
            slots[f].append(s)
            live[f].append(s)
            continue
        if p_reorder and len(F) == 1 and len(sizes) > 1 and rng.random() < p_reorder:
            # reorder the variables of the (only) forest; from here on tables are laid out by the new level sizes
            perm = list(l2v)
            while perm == l2v:
                rng.shuffle(perm)
            S.add('reorder %d %s' % (f, ' '.join(map(str, perm))))
            l2v = perm
            sizes = [var_sizes[v - 1] for v in l2v]
            npts = points_of(sizes, rel)
            S.add('obs')
            S.add('snap %d' % f)
            continue
        if r < 0.22:
            # construction
            x = rng.random()
            if x < 0.5:
                table_coll(S, pick(f), f, kind, rand_table(rng, kind, npts, pal(kind), p_default=rng.choice([0.3, 0.6, 0.85])), sizes)
            else:
                n = rng.choice([1, 2, 3, 5])
                p = gen.palette(kind)
                mts = [(rng.choice(p), gen.rand_minterm(rng, sizes, rel)) for _ in range(n)]
                mode, dflt = gen.pick_mode_default(rng, kind, [v for v, _ in mts])
                S.coll(pick(f), f, mode, dflt, mts)
        elif r < 0.62:
            # operation; operands from forests of the same kind (any rule)
            same = [g for g in F if kind_of[g] == kind and live[g]]
            fa, fb = rng.choice(same), rng.choice(same)
            if KINDS[kind][1] == 'B':
                if rng.random() < 0.15:
                    S.add('un COMPLEMENT %d %d' % (pick(f), pick(fa)))
                else:
                    S.add('bin %s %d %d %d' % (rng.choice(SETALG), pick(f), pick(fa), pick(fb)))
            else:
                ops = list(NUMOPS)
                S.add('bin %s %d %d %d' % (rng.choice(ops), pick(f), pick(fa), pick(fb)))
        elif r < 0.70:
            # copy across forests of the same shape
            others = [g for g in F if rel_of[g] == rel and g != f and live[g]]
            if others:
                g = rng.choice(others)
                if not (KINDS[kind_of[g]][2] == 'ET' or KINDS[kind][2] == 'ET'):
                    S.add('un COPY %d %d' % (pick(f), pick(g)))
        elif r < 0.80:
            a, b = pick(f), pick(f)
            if a != b:
                S.add('asg %d %d' % (a, b))
        elif r < 0.88:
            # release an edge, or create a copy in a new slot
            if len(live[f]) > 2 and rng.random() < 0.6:
                s = pick(f)
                S.add('del %d' % s)
                live[f].remove(s)
            else:
                s = S.slot()
                S.add('copy %d %d' % (s, pick(f)))
                slots[f].append(s)
                live[f].append(s)
        elif r < 0.88 + p_clear:
            S.add(rng.choice(['clearct %d' % f, 'rmstale', 'clearall']))
        elif r < 0.96 and allow_bulk:
            S.add('bulk %d %d' % (pick(f), rng.choice([3, 300, 70000])))
        else:
            S.add('obs')
        if extra:
            extra(S, step, F, live, rng)
        if snap_every and step % snap_every == snap_every - 1:
            S.add('obs')
            for g in (F if snap_all else [f]):
                S.add('snap %d' % g)
    S.add('obs')
    for g in F:
        S.add('snap %d' % g)
    if final_reclaim:
        for g in F:
            for s in live[g]:
                S.add('del %d' % s)
        # pessimistic forests must be empty already; the others once the caches are empty
        for g in F:
            S.add('snap %d' % g)
        S.add('clearall')
        for g in F:
            S.add('snap %d' % g)
    return S.text()


STO = ['E', 'F', 'S']
MMS = ['OG', 'AG', 'MA', 'HE']
DEL = ['O', 'P', 'N']

HIST_KINDS_SET = ['mtb_s', 'mti_s', 'mtr_s', 'evp_s']
HIST_KINDS_REL = ['mtb_r', 'mti_r', 'mtr_r', 'evp_r']     # EV*: only where values stay exact (C03, C05, C10)


def rand_forests(rng, rel, n, pol=None):
    kinds = HIST_KINDS_REL if rel else HIST_KINDS_SET
    out = []
    base = rng.choice(kinds)
    for i in range(n):
        k = base if rng.random() < 0.6 else rng.choice(kinds)
        fo = dict(kind=k, rule=rng.choice(gen.rules_of(k)), sto=rng.choice(STO), mm=rng.choice(MMS), dele=rng.choice(DEL))
        if pol:
            fo.update(pol)
        out.append(fo)
    return out


def hist_shapes(rng, rel):
    """mostly small shapes; sometimes wide (one or two large variables) or tall
    (many binary variables) ones, so that large nodes, sparse/full storage
    decisions and deep recursions are met as well"""
    x = rng.random()
    if x < 0.6:
        return gen.rand_sizes(rng, 9 if rel else 36, maxvars=(2 if rel else 3), maxsize=4)
    if x < 0.8:
        if rel:
            return [rng.randint(5, 7)]
        return rng.choice([[rng.randint(6, 12)], [rng.randint(5, 8), rng.randint(2, 8)], [2, rng.randint(9, 16)]])
    if rel:
        return [2, 2, 2]
    return [2] * rng.randint(5, 6)


def var_struct_script(rng, kind, rule):
    """functions of a single (primed or unprimed) variable built by createEdgeForVar,
    next to the same function built from minterms, in a forest with the given rule;
    every pair is observed (identical edges: C01) and the forest is snapshot
    (reduction rule at every node: C02)"""
    sr, rngt, lab = KINDS[kind]
    rel = sr == 'R'
    sizes = rng.choice([[3, 2, 4], [2, 3, 2], [2, 3]]) if not rel else rng.choice([[3, 2, 2], [2, 3], [3, 2]])
    S = Script()
    d = S.dom(sizes)
    f = S.forest(d, kind, rule, sto=rng.choice(STO))
    K = len(sizes)
    pal = [v for v in (COPY_PAL.get(kind) or [1]) if v != INF]
    dflt = gen.default_of(kind)
    npts = points_of(sizes, rel)
    for vh in range(1, K + 1):
        for pr in ([0, 1] if rel else [0]):
            vs = sizes[vh - 1]
            for style in ('one', 'all', 'rand'):
                if rngt == 'B':
                    nz = [1]
                else:
                    nz = [v for v in pal if v != dflt] or [1]
                if style == 'one':
                    terms = [dflt if lab != 'EP' else 0] * vs
                    terms = [0] * vs
                    terms[rng.randrange(vs)] = rng.choice(nz)
                elif style == 'all':
                    terms = [rng.choice(nz) for _ in range(vs)]
                else:
                    terms = [rng.choice(nz + [0]) for _ in range(vs)]
                e, ref = S.new(f), S.new(f)
                S.add('var %d %d %d %d %d %s' % (e, f, vh, pr, vs, ' '.join(map(str, terms))))
                T = []
                for r in range(npts):
                    a = rank_to_assignment(r, sizes, rel)
                    dig = a[K + vh - 1] if pr else a[vh - 1]
                    T.append(terms[dig])
                if lab in ('EP', 'IX'):
                    S.coll(ref, f, 'MIN', INF, [(v, rank_to_assignment(r, sizes, rel)) for r, v in enumerate(T)])
                else:
                    table_coll(S, ref, f, kind, T, sizes)
                S.add('obs %d %d' % (e, ref))
    S.add('snap %d' % f)
    return S.text()


def var_struct_scripts(rng, tier):
    out = []
    n = 0
    for kind in ['mtb_r', 'mti_r', 'mtb_s', 'mti_s', 'evp_s', 'evp_r', 'mtr_r']:
        for rule in gen.rules_of(kind):
            if tier != 'thorough' and kind in ('evp_r', 'mtr_r', 'evp_s') and rng.random() < 0.5:
                continue
            out.append(('v%03d_%s%s' % (n, kind, rule), var_struct_script(rng, kind, rule)))
            n += 1
    return out


@plan('C02')
def plan_c02(tier, seed, rng):
    scripts = var_struct_scripts(rng, tier)
    reps = 40 if tier == 'thorough' else 10
    for i in range(reps):
        rel = i % 2 == 1
        sizes = hist_shapes(rng, rel)
        forests = rand_forests(rng, rel, rng.choice([1, 2, 3]))
        if i % 3 == 0:
            # one forest whose variables are reordered now and then (variable swap; MT and EV+ sets, MT relations)
            k = rng.choice(['mtb_s', 'mti_s', 'mtr_s', 'evp_s'] if not rel else ['mtb_r', 'mti_r'])
            forests = [dict(kind=k, rule=rng.choice(gen.rules_of(k)), sto=rng.choice(STO), mm=rng.choice(MMS), dele=rng.choice(DEL),
                            heur=rng.choice(HEURS))]
            while len(sizes) < 2 or len(set(sizes)) < 2:
                sizes = [rng.choice([2, 3, 4]) for _ in range(2 if rel else 3)]
            scripts.append(('h%03d' % i, history_script(rng, sizes, forests, 90 if tier == 'thorough' else 60, snap_every=10, p_reorder=0.15)))
            continue
        scripts.append(('h%03d' % i, history_script(rng, sizes, forests, 90 if tier == 'thorough' else 60, snap_every=10)))
    return dict(
        scripts=scripts, validators=[API, STORE], tags={'C02', 'C01'}, lifecycle=False,
        rule='per forest kind x rule: functions of every single variable (primed and unprimed; one / all / some non-zero terms) built by createEdgeForVar next to the same function built from minterms, observed for identity and snapshot; '
             'seeded random histories (constructions from tables and minterm collections, set algebra / arithmetic within and across forests of one kind, '
             'COPY across kinds, edge assignment / copy / release, clearing and stale-removal of compute tables) over 1..3 forests per execution with random '
             'kind (MT boolean/integer/real, EV+, EV*; sets and relations), reduction rule, storage, memory manager and deletion policy; a snapshot of every '
             'live node (full / sparse / either unpacking, hashes, unique-table look-ups, singleton query, counts) of every forest every 10 calls and at the end, '
             'after releasing all edges and after clearing the caches; TLC evaluates WellFormedNode for every node of every snapshot and compares the node '
             'denotation of every held edge with its evaluated table; non-trivial = snapshot with more than one node / non-constant result',
        exhaustive=False,
    )


def c06_width_script(rng, dele, wide16):
    """a root node's incoming count is parked at 257, 256, 255 (and, wide16, at
    65537, 65536, 65535) while the forest grows past 512 / 1024 handles and
    shrinks again, so that the counter arrays are widened, resized and narrowed
    around the value"""
    sizes = [4, 4, 4, 4]
    S = Script()
    d = S.dom(sizes)
    kind = 'mti_s'
    f = S.forest(d, kind, rng.choice('FQ'), sto=rng.choice(STO), mm=rng.choice(MMS), dele=dele)
    npts = points_of(sizes, False)
    e0 = S.new(f)
    T0 = [rng.choice([0, 1, 2, 3]) if i < 16 else 0 for i in range(npts)]
    table_coll(S, e0, f, kind, T0, sizes)
    big = [S.new(f) for _ in range(9)]

    def grow():
        for b in big:
            table_coll(S, b, f, kind, rand_table(rng, kind, npts, [1, 2, 3, 5, 7, 11, 13, 17], p_default=0.3), sizes)

    def shrink():
        for b in big:
            S.add('attach %d -1' % b)
            S.add('attach %d %d' % (b, f))
        S.add('clearall')

    plan_ = [(300, [43, 1, 1])]
    if wide16:
        plan_.append((70000, [70000 + 257 - 300 - 43 - 2 - 65537 + 45, 1, 1]))
    held = 0
    for (k, drops) in plan_:
        S.add('hold %d %d' % (e0, k))
        held += k
        for dr in drops:
            S.add('drop %d' % dr)
            held -= dr
            grow()
            S.add('snap %d' % f) if held < 1000 else None
            shrink()
            S.add('snap %d' % f)
            S.add('obs %d' % e0)
    S.add('drop %d' % held)
    S.add('snap %d' % f)
    S.add('attach %d -1' % e0)
    S.add('clearall')
    S.add('snap %d' % f)
    return S.text()


def c06_leak_script(rng, rel, ncases):
    """leak sweep: one operation on structured operands (functions that ignore levels,
    relations that are the identity / unconstrained on some levels), then every edge is
    released, the caches are cleared and the forests are snapshot: no node may remain
    (ReclaimAll).  Structured operands make the operations take their level-skipping
    paths (identity chains, redundant chains), whose temporary links must all be undone."""
    sizes = rng.choice([[3, 2], [2, 3], [2, 2, 2], [3, 2, 2]]) if rel else rng.choice([[3, 2, 2], [2, 3, 2], [2, 2, 2, 2]])
    S = Script()
    d = S.dom(sizes)
    kb = 'mtb_r' if rel else 'mtb_s'
    ki = 'mti_r' if rel else 'mti_s'
    rules = gen.rules_of(kb)
    fb1 = S.forest(d, kb, rng.choice(rules), dele=rng.choice(DEL), sto=rng.choice(STO))
    fb2 = S.forest(d, kb, rng.choice(rules), dele=rng.choice(DEL))
    fi1 = S.forest(d, ki, rng.choice(rules), dele=rng.choice(DEL))
    F = [fb1, fb2, fi1]
    ns = points_of(sizes, False)

    def operand(kind):
        if rel:
            pal = None if kind == kb else [1, 2, 3, -7]
            return struct_relation(rng, sizes, pal) if rng.random() < 0.8 else rand_relation(rng, sizes, kind, pal)
        mk = (lambda n_: rand_table(rng, kind, n_)) if kind == kb else (lambda n_: rand_table(rng, kind, n_, [1, 2, 3, -7], p_default=0.4))
        return lift_table(rng, sizes, mk) if rng.random() < 0.8 else mk(ns)

    for c in range(ncases):
        x = rng.random()
        if x < 0.35:
            fa, fr = rng.choice([fb1, fb2]), rng.choice([fb1, fb2])
            a, r = S.new(fa), S.new(fr)
            table_coll(S, a, fa, kb, operand(kb), sizes)
            S.add('un COMPLEMENT %d %d' % (r, a))
            used = [a, r]
        elif x < 0.7:
            fa, fb, fr = rng.choice([fb1, fb2]), rng.choice([fb1, fb2]), rng.choice([fb1, fb2])
            a, b, r = S.new(fa), S.new(fb), S.new(fr)
            table_coll(S, a, fa, kb, operand(kb), sizes)
            table_coll(S, b, fb, kb, operand(kb), sizes)
            S.add('bin %s %d %d %d' % (rng.choice(SETALG), r, a, b))
            used = [a, b, r]
        elif x < 0.85:
            a, b, r = S.new(fi1), S.new(fi1), S.new(fi1)
            table_coll(S, a, fi1, ki, operand(ki), sizes)
            table_coll(S, b, fi1, ki, operand(ki), sizes)
            S.add('bin %s %d %d %d' % (rng.choice(['PLUS', 'MULTIPLY', 'MAXIMUM', 'MINIMUM']), r, a, b))
            used = [a, b, r]
        else:
            a, r = S.new(fb1), S.new(fi1)
            table_coll(S, a, fb1, kb, operand(kb), sizes)
            S.add('un COPY %d %d' % (r, a))
            used = [a, r]
        S.add('obs')
        for e in used:
            S.add('del %d' % e)
        S.add('clearall')
        for g in F:
            S.add('snap %d' % g)
    return S.text()


@plan('C06')
def plan_c06(tier, seed, rng):
    scripts = []
    for i in range(8 if tier == 'thorough' else 3):
        scripts.append(('k%03d' % i, c06_leak_script(rng, i % 3 != 2, 30 if tier == 'thorough' else 14)))
    reps = 36 if tier == 'thorough' else 9
    for i in range(reps):
        rel = i % 3 == 2
        sizes = hist_shapes(rng, rel)
        forests = rand_forests(rng, rel, rng.choice([1, 2, 3]), pol=dict(dele=DEL[i % 3]))
        scripts.append(('l%03d' % i, history_script(rng, sizes, forests, 120 if tier == 'thorough' else 70, snap_every=9, allow_bulk=True)))
    # counter widths: counts parked at the 8-bit (thorough: also 16-bit) boundary while the handle arrays are resized
    for i, dele in enumerate(DEL if tier == 'thorough' else [rng.choice(DEL)]):
        scripts.append(('w%03d_%s' % (i, dele), c06_width_script(rng, dele, tier == 'thorough' and i == 0)))
    # long allocation-heavy histories without cache clearing: handles are recycled while cache entries
    # still name dead nodes (pessimistic) or unreachable ones (optimistic)
    for i, dele in enumerate(['P', 'O'] if tier != 'thorough' else ['P', 'O', 'N', 'P']):
        forests = [dict(kind='mti_s', rule=rng.choice('FQ'), dele=dele, mm=rng.choice(MMS), sto=rng.choice(STO)),
                   dict(kind='mti_s', rule=rng.choice('FQ'), dele=dele)]
        scripts.append(('z%03d_%s' % (i, dele), history_script(rng, [4, 4, 4], forests, 260 if tier != 'thorough' else 600,
                                                               snap_every=65 if tier != 'thorough' else 150, slots_per_forest=8, p_clear=0.004)))
    return dict(
        scripts=scripts, validators=[API, STORE], tags={'C06', 'HELD'}, lifecycle=True,
        mc=[('MddStore.tla', 'StoreMC_F_O.cfg', {}), ('MddStore.tla', 'StoreMC_Q_P.cfg', {})] if tier == 'thorough' else [('MddStore.tla', 'StoreMC_small.cfg', {})],
        rule='leak sweeps: single operations (COMPLEMENT, set algebra, arithmetic, COPY) on structured operands that make them take their level-skipping paths, then all edges released, caches cleared, forests snapshot - no node may remain; '
             'model: MddStore (reduce / unique-table / link / unlink / lastUnlink / deleteNode / recycle / cache counts / compute table) model-checked '
             'exhaustively on a 2-level forest with invariants RefExact, NoDangling, FreeMeansUnreferenced, ReclaimAll, Refines; implementation: seeded random '
             'histories over 1..3 forests under optimistic, pessimistic and never-delete policies with lifecycle events (NewNode / DelNode / Recycle) and a '
             'snapshot every 9 calls; TLC checks at every snapshot incoming count = parent slots + registered root edges + build-list references, no pointer to '
             'a reclaimed node, live set = set implied by the lifecycle events, handles allocated only when free and unmentioned by the cache, every held edge '
             'still denotes its function, and nothing remains once all edges are released (pessimistic) and the caches cleared (optimistic); reference counts are '
             'driven through the 8/16/32-bit counter widths by 300 and 70000 extra copies; non-trivial = snapshot with more than one node',
        exhaustive=False,
    )


CT_STYLES = [0, 1, 2, 3]
CT_STALE = [0, 1, 2]


@plan('C07')
def plan_c07(tier, seed, rng):
    scripts = []
    n = 0
    configs = [(s, r, m) for s in CT_STYLES for r in CT_STALE for m in (1024, 0)]
    rng.shuffle(configs)
    use = configs if tier == 'thorough' else configs[:6]
    # one history per shape, executed under every chosen table configuration
    for h in range(3 if tier == 'thorough' else 2):
        rel = h % 2 == 1
        sizes = hist_shapes(rng, rel)
        forests = rand_forests(rng, rel, 2, pol=dict(dele=rng.choice(DEL)))
        st = rng.getstate()
        for (style, stale, mx) in use:
            rng.setstate(st)       # same script text for every configuration
            text = history_script(rng, sizes, forests, 150 if tier == 'thorough' else 90, snap_every=15, ct=(style, stale, mx))
            scripts.append(('t%03d_s%dr%dm%d' % (n, style, stale, mx), text))
            n += 1
    # long histories on a larger shape: enough distinct operations to push the
    # tables through their growth / garbage-collection thresholds (512 entries
    # unchained, 4096 chained) while edges are released in between
    stress = [(0, 0, 1024), (3, 2, 1024), (1, 1, 0), (2, 0, 0)] if tier != 'thorough' else [(s_, r_, m_) for s_ in CT_STYLES for r_ in CT_STALE for m_ in (1024, 0)]
    sizes = [4, 4, 4] if tier != 'thorough' else [4, 4, 4, 2]
    forests = [dict(kind='mti_s', rule='F', dele='O'), dict(kind='mti_s', rule='Q', dele='P')]
    st = rng.getstate()
    for (style, stale, mx) in stress:
        rng.setstate(st)
        text = history_script(rng, sizes, forests, 260 if tier != 'thorough' else 700, snap_every=65 if tier != 'thorough' else 175,
                              ct=(style, stale, mx), slots_per_forest=8, p_clear=0.004)
        scripts.append(('z%03d_s%dr%dm%d' % (n, style, stale, mx), text))
        n += 1
    return dict(
        scripts=scripts, validators=[API, STORE], tags={'C07', 'HELD'}, lifecycle=True,
        mc=[('MddStore.tla', 'StoreMC_small.cfg', {})] + ([('MddStore.tla', 'StoreMC_bug_cache.cfg', {'expect_violation': True}),
                                                            ('MddStore.tla', 'StoreMC_bug_hit.cfg', {'expect_violation': True})] if tier == 'thorough' else []),
        rule='model: MddStore with a compute table (invariants CacheExact, CTSound, DeadOnlyWhileCached, action property HitNeverDead; the seeded design '
             'deviations "recycle ignores cache count" and "hit ignores dead nodes" must be refuted by TLC); implementation: the same seeded history executed '
             'under monolithic/per-operation x chained/unchained tables, the three stale-removal policies and maximum sizes 1024 / default, each trace '
             'validated against the API specification (which has no cache), so all configurations agree; CTAdd / CTHit / CTDel events: a hit must return an '
             'entry that was added, not deleted, and whose nodes are all live in the generation they had at the add; at every snapshot the cache count of every '
             'node = entries recorded by the specification = entries counted by the table; non-trivial = non-constant result / multi-node snapshot',
        exhaustive=False,
    )


@plan('C12')
def plan_c12(tier, seed, rng):
    scripts = []
    n = 0
    combos = [(a, b, c) for a in STO for b in MMS for c in DEL]
    if tier != 'thorough':
        # 6 configurations in which every value of every axis appears
        rng.shuffle(combos)
        pick, seen = [], set()
        for c in combos:
            if any((i, v) not in seen for i, v in enumerate(c)):
                pick.append(c)
                seen |= {(i, v) for i, v in enumerate(c)}
        combos = pick[:8]
    for h in range(3 if tier == 'thorough' else 2):
        rel = h % 2 == 1
        sizes = hist_shapes(rng, rel)
        base = rand_forests(rng, rel, 2)
        st = rng.getstate()
        for (sto, mm, de) in combos:
            rng.setstate(st)
            forests = [dict(f, sto=sto, mm=mm, dele=de) for f in base]
            text = history_script(rng, sizes, forests, 140 if tier == 'thorough' else 80, snap_every=20)
            scripts.append(('p%03d_%s%s%s' % (n, sto, mm, de), text))
            n += 1
    return dict(
        scripts=scripts, validators=[API, STORE], tags={'C12', 'C02', 'C11', 'HELD'},
        post='policy_agreement',
        rule='one seeded history (allocation-heavy: constructions, operations, releases, cache clears) per shape executed once per storage {full, sparse, '
             'either} x memory manager {original grid, array+grid, malloc, heap} x deletion {optimistic, pessimistic, never} (all 36 in thorough, a covering subset '
             'in quick); every trace is validated against the one specification, which has no policy parameter, so function tables agree across configurations; '
             'node counts of every edge are checked against the snapshot and canonical structure by the C02 predicates; non-trivial = non-constant result',
        exhaustive=(tier == 'thorough'),
    )


def model_behaviours(work, rule, pess, n, depth, seed):
    """behaviours of the store model, generated by TLC (simulation of
    MddStoreGen): list of lists of call records with the model's predictions"""
    cfg = os.path.join(V.SPEC, 'MddStoreGen_run_%s_%d.cfg' % (rule, int(pess)))
    with open(cfg, 'w') as f:
        f.write('SPECIFICATION GSpec\nCONSTANTS\n  H = 9\n  K = 3\n  S = 2\n  Rule = "%s"\n  Pess = %s\n  NSlots = 3\n  MaxCT = 3\n'
                '  Bug = "none"\n  D = %d\nCHECK_DEADLOCK FALSE\n' % (rule, 'TRUE' if pess else 'FALSE', depth))
    try:
        rc, out = V.run_tlc('MddStoreGen.tla', cfg, os.path.join(work, 'md-gen-%s%d' % (rule, int(pess))), workers=1,
                            extra=['-simulate', 'num=%d' % n, '-depth', str(depth + 2), '-seed', str(seed)], timeout=600)
    finally:
        os.remove(cfg)
    beh = []
    import re as _re
    for m in _re.finditer(r'<<"BEHAVIOUR", "(.*)">>', out):
        beh.append(json.loads(m.group(1).encode().decode('unicode_escape')))
    if not beh:
        raise Machinery('TLC generated no behaviour: ' + out[-1500:])
    return beh


def behaviour_script(beh, rule, pess, sto, mm):
    S = Script()
    d = S.dom([2, 2, 2])
    f = S.forest(d, 'mtb_s', rule, sto=sto, mm=mm, dele=('P' if pess else 'O'))
    slots = [S.new(f) for _ in range(3)]
    for i, c in enumerate(beh):
        a = c['a']
        if a == 'build':
            table_coll(S, slots[c['x'] - 1], f, 'mtb_s', c['f'], [2, 2, 2])
        elif a == 'union':
            S.add('bin UNION %d %d %d' % (slots[c['x'] - 1], slots[c['y'] - 1], slots[c['z'] - 1]))
        elif a == 'assign':
            S.add('asg %d %d' % (slots[c['x'] - 1], slots[c['y'] - 1]))
        elif a == 'release':
            S.add('attach %d -1' % slots[c['x'] - 1])
            S.add('attach %d %d' % (slots[c['x'] - 1], f))
        elif a == 'clearct':
            S.add('clearct %d' % f)
        elif a == 'rmstale':
            S.add('rmstale')
        for x in range(3):
            S.add('expect %d %d' % (slots[x], c['after'][x]['nc']))
        if i % 5 == 4:
            S.add('snap %d' % f)
    S.add('snap %d' % f)
    return S.text()


@plan('C01')
def plan_c01(tier, seed, rng):
    scripts = []
    n = 0
    for kind in [k for k in KINDS if k != 'idx_s']:
        rel = KINDS[kind][0] == 'R'
        for rule in gen.rules_of(kind):
            for rep in range(3 if tier == 'thorough' else 1):
                sizes = hist_shapes(rng, rel)
                scripts.append(('k%03d' % n, c01_script(rng, sizes, kind, rule, 8 if tier == 'thorough' else 5)))
                n += 1
    # expert interface (unpacked nodes filled in arbitrary order)
    for kind in ['mtb_s', 'mti_s', 'evp_s']:
        for rep in range(3 if tier == 'thorough' else 1):
            scripts.append(('u%03d' % n, c01_unode_script(rng, kind)))
            n += 1
    # values that do not fit 32 bits (EV+): unique-table comparison of wide edge values
    for kind in ['evp_s', 'evp_r']:
        for rule in gen.rules_of(kind):
            for rep in range(2 if tier == 'thorough' else 1):
                sizes = [rng.choice([2, 3]), rng.choice([2, 3, 4])] if kind == 'evp_s' else [rng.choice([2, 3])]
                scripts.append(('w%03d' % n, c01_wide_script(rng, sizes, kind, rule)))
                n += 1
    # EV+: the all-infinity function reached by arithmetic (operands with complementary
    # finite supports and non-zero minima, infinite constants) must be the one edge <0, inf>
    for kind in ['evp_s', 'evp_r']:
        for rule in gen.rules_of(kind):
            if tier != 'thorough' and rng.random() < 0.4:
                continue
            scripts.append(('inf%03d' % n, c01_evinf_script(rng, kind, rule)))
            n += 1
    # createEdgeForVar next to the same function from minterms (every variable, primed too)
    scripts += [('var_' + nm, text) for nm, text in var_struct_scripts(rng, tier)]
    # spec -> code: behaviours generated by TLC from the store model, with the
    # model's prediction of every edge's function and node count after each call
    gwork = os.path.join(VERIF, 'work', 'C01-gen-%s' % tier)
    os.makedirs(gwork, exist_ok=True)
    for (rule, pess) in [('F', False), ('Q', True)] + ([('F', True), ('Q', False)] if tier == 'thorough' else []):
        behs = model_behaviours(gwork, rule, pess, 40 if tier == 'thorough' else 12, 14, seed)
        for b in behs:
            scripts.append(('g%03d_%s%d' % (n, rule, int(pess)), behaviour_script(b, rule, pess, rng.choice(STO), rng.choice(MMS))))
            n += 1
    shutil.rmtree(gwork, ignore_errors=True)
    # results of every other operation family must be canonical too: borrow a
    # seeded sample of the executions of the function-level plans (judged here
    # only for identity <=> function)
    for other in ('C04', 'C05', 'C08', 'C09', 'C10', 'C20'):
        sub = PLANS[other]('quick', seed, random.Random(seed * 7919 + int(other[1:])))['scripts']
        k = 10 if tier == 'thorough' else 3
        for (nm, text) in rng.sample(sub, min(k, len(sub))):
            scripts.append(('%s_%s' % (other, nm), text))
    return dict(
        scripts=scripts, validators=[API, STORE], tags={'C01', 'HELD'},
        mc=[('MddStore.tla', 'StoreMC_small.cfg', {})],
        rule='model: invariants Canonical and RootsCanonical of MddStore; implementation, per forest kind x rule: each target function is built along several '
             'paths - one collection, single minterms in shuffled order joined by the forest\'s join operation, algebraic rewrites that are identities in the '
             'specification, a copy to another forest and back, again after releasing everything (handle reuse), under full-only / sparse-only storage - and all '
             'resulting edges are held; TLC checks equal identity <=> equal function over all held edges at every result, hash / unique-table agreement for every '
             'node; plus a seeded sample of the executions of the C04/C05/C08/C09/C10/C20 drivers (set algebra, arithmetic, images, reachability, copies) judged for the '
             'same invariant; non-trivial = non-constant function',
        exhaustive=False,
    )


WIDE_PAL = [0, 5, 7, 2147483647, 2147483648, 2147483649, 3000000000, 10000000000, 10000000001, -3000000000, 4294967296, 8589934592]


def c01_wide_script(rng, sizes, kind, rule):
    """EV+ functions whose values do not fit 32 bits (the trace carries them as
    OffGrid plus an exact fingerprint): the same function along several paths"""
    rel = KINDS[kind][0] == 'R'
    S = Script()
    d = S.dom(sizes)
    f = S.forest(d, kind, rule, sto=rng.choice(STO))
    g = S.forest(d, kind, rng.choice(gen.rules_of(kind)), sto=rng.choice(STO))
    npts = points_of(sizes, rel)
    n = 4
    a = [S.new(f) for _ in range(n)]
    b = [S.new(f) for _ in range(n)]
    c = [S.new(f) for _ in range(n)]
    tg = S.new(g)
    tmp = S.new(f)
    zero = S.new(f)
    S.add('const %d %d 0' % (zero, f))
    tables = [[(INF if rng.random() < 0.3 else rng.choice(WIDE_PAL)) for _ in range(npts)] for _ in range(n)]
    tables[n - 1] = list(tables[0])
    for rnd in range(2):
        for i, T in enumerate(tables):
            table_coll(S, a[i], f, kind, T, sizes)                   # one collection
            # point by point, shuffled, joined by MINIMUM
            pts = [(r, v) for r, v in enumerate(T) if v != INF]
            rng.shuffle(pts)
            S.add('const %d %d inf' % (b[i], f))
            for (r, v) in pts:
                S.coll(tmp, f, 'ONE', 'inf', [(v, rank_to_assignment(r, sizes, rel))])
                S.add('bin MINIMUM %d %d %d' % (b[i], b[i], tmp))
            # through another forest and back; plus zero
            S.add('un COPY %d %d' % (tg, a[i]))
            S.add('un COPY %d %d' % (c[i], tg))
            S.add('bin PLUS %d %d %d' % (tmp, a[i], zero))
            S.add('obs')
        S.add('snap %d' % f)
        if rnd == 0:
            for e in a + b + c + [tmp]:
                S.add('attach %d -1' % e)
                S.add('attach %d %d' % (e, f))
            S.add('clearall')
    return S.text()


def c01_unode_script(rng, kind):
    """expert interface: the same node assembled as a sparse unpacked node with
    its entries in every / shuffled insertion order, as a full unpacked node,
    and as a minterm collection - all must be the identical edge"""
    import itertools
    sizes = [3, rng.choice([4, 6, 9]), rng.choice([3, 5])]
    S = Script()
    d = S.dom(sizes)
    f = S.forest(d, kind, 'F', sto=rng.choice(STO))
    pal = COPY_PAL.get(kind) or [1]
    K = len(sizes)
    # children: functions of the bottom variable only
    nchild = 4
    kids = [S.new(f) for _ in range(nchild)]
    ktab = []
    for c in kids:
        if KINDS[kind][1] == 'B':
            low = [rng.choice([0, 1]) for _ in range(sizes[0])]
            if not any(low):
                low[0] = 1
        else:
            low = [rng.choice([v for v in pal if v != INF] + [gen.default_of(kind)]) for _ in range(sizes[0])]
            if all(v == gen.default_of(kind) for v in low):
                # a sparse unpacked node lists its *non-transparent* edges only (unpacked_node.h:
                # "which nonzero edge"): a child that is the transparent function is not a legal entry
                low[rng.randrange(sizes[0])] = rng.choice([v for v in pal if v not in (INF, gen.default_of(kind))])
        full = [low[r % sizes[0]] for r in range(points_of(sizes, False))]
        ktab.append(full)
        table_coll(S, c, f, kind, full, sizes)
    level = 2
    res = [S.new(f) for _ in range(8)]
    ref = S.new(f)
    for trial in range(4):
        n = rng.randint(2, min(4, sizes[level - 1]))
        idxs = rng.sample(range(sizes[level - 1]), n)
        chosen = [rng.randrange(nchild) for _ in range(n)]
        # reference: the same function as a collection
        np_ = points_of(sizes, False)
        T = []
        for r in range(np_):
            dig = (r // sizes[0]) % sizes[1]
            if dig in idxs:
                T.append(ktab[chosen[idxs.index(dig)]][r])
            else:
                T.append(gen.default_of(kind))
        table_coll(S, ref, f, kind, T, sizes)
        orders = list(itertools.permutations(range(n)))
        rng.shuffle(orders)
        for oi, order in enumerate(orders[:6]):
            parts = ' '.join('%d %d' % (idxs[o], kids[chosen[o]]) for o in order)
            S.add('unode %d %d %d S %d %s' % (res[oi], f, level, n, parts))
        parts = ' '.join('%d %d' % (idxs[o], kids[chosen[o]]) for o in range(n))
        S.add('unode %d %d %d F %d %s' % (res[6], f, level, n, parts))
        S.add('obs')
    S.add('snap %d' % f)
    return S.text()


def c01_evinf_script(rng, kind, rule):
    rel = KINDS[kind][0] == 'R'
    sizes = rng.choice([[2, 2], [3]]) if rel else rng.choice([[3, 2], [2, 2, 2], [4, 3]])
    S = Script()
    d = S.dom(sizes)
    f = S.forest(d, kind, rule, sto=rng.choice(STO))
    npts = points_of(sizes, rel)
    inf_c, fresh = S.new(f), S.new(f)
    S.add('const %d %d inf' % (inf_c, f))
    a, b, c7 = S.new(f), S.new(f), S.new(f)
    S.add('const %d %d 7' % (c7, f))
    res = [S.new(f) for _ in range(6)]
    for trial in range(4):
        part = [rng.random() < 0.5 for _ in range(npts)]
        A = [rng.choice([3, 5, 9, 100]) if part[r] else INF for r in range(npts)]
        B = [INF if part[r] else rng.choice([2, 4, 11]) for r in range(npts)]
        S.coll(a, f, 'MIN', INF, [(v, rank_to_assignment(r, sizes, rel)) for r, v in enumerate(A) if v != INF])
        S.coll(b, f, 'MIN', INF, [(v, rank_to_assignment(r, sizes, rel)) for r, v in enumerate(B) if v != INF])
        S.add('bin PLUS %d %d %d' % (res[0], a, b))
        S.add('bin PLUS %d %d %d' % (res[1], b, a))
        S.add('bin PLUS %d %d %d' % (res[2], a, inf_c))
        S.add('bin PLUS %d %d %d' % (res[3], inf_c, b))
        S.add('bin PLUS %d %d %d' % (res[4], res[0], c7))
        S.add('bin MAXIMUM %d %d %d' % (res[5], a, b))
        S.add('obs')
    return S.text()


def c01_script(rng, sizes, kind, rule, nfun):
    sr, rngt, lab = KINDS[kind]
    rel = sr == 'R'
    S = Script()
    d = S.dom(sizes)
    f = S.forest(d, kind, rule, sto=rng.choice(STO))
    g = S.forest(d, kind, rng.choice(gen.rules_of(kind)), sto=rng.choice(STO))
    npts = points_of(sizes, rel)
    pal = COPY_PAL.get(kind)
    targets = [S.new(f) for _ in range(nfun)]
    tmp = [S.new(f) for _ in range(3)]
    tg = S.new(g)
    tables = []
    for i in range(nfun):
        T = rand_table(rng, kind, npts, pal, p_default=rng.choice([0.4, 0.7]))
        if i > 0 and rng.random() < 0.3:
            T = list(tables[rng.randrange(len(tables))])        # the same function again
        tables.append(T)
    join = None
    if rngt == 'B':
        join = ('UNION', 0)
    elif lab in ('EP',):
        join = ('MINIMUM', INF)
    elif lab == 'MT':
        join = ('MAXIMUM', None)
    for round_ in range(2):
        for i, T in enumerate(tables):
            # path 1: one collection
            table_coll(S, targets[i], f, kind, T, sizes)
            # path 2: point by point in shuffled order, joined
            if join:
                op, neutral = join
                pts = [(r, v) for r, v in enumerate(T)]
                rng.shuffle(pts)
                lo = min([v for v in T if v != INF], default=0) if neutral is None else neutral
                if neutral is None:
                    S.add('const %d %d %s' % (tmp[0], f, lo))
                else:
                    S.add('const %d %d %s' % (tmp[0], f, 'inf' if neutral == INF else neutral))
                for (r, v) in pts:
                    if (neutral is None and v == lo) or v == neutral or (rngt == 'B' and v == 0):
                        continue
                    dflt = lo if neutral is None else neutral
                    S.coll(tmp[1], f, 'ONE', 'inf' if dflt == INF else dflt, [(v, rank_to_assignment(r, sizes, rel))])
                    S.add('bin %s %d %d %d' % (op, tmp[0], tmp[0], tmp[1]))
                S.add('obs %d %d' % (targets[i], tmp[0]))
            # path 3: through another forest and back
            S.add('un COPY %d %d' % (tg, targets[i]))
            S.add('un COPY %d %d' % (tmp[2], tg))
            S.add('obs %d %d' % (targets[i], tmp[2]))
            # path 4: rewrites that are identities
            if rngt == 'B':
                S.add('un COMPLEMENT %d %d' % (tmp[1], targets[i]))
                S.add('un COMPLEMENT %d %d' % (tmp[1], tmp[1]))
                S.add('bin INTERSECTION %d %d %d' % (tmp[2], targets[i], targets[i]))
                S.add('bin DIFFERENCE %d %d %d' % (tmp[0], targets[i], tmp[0]))
            elif lab == 'MT' or lab == 'EP':
                S.add('bin MAXIMUM %d %d %d' % (tmp[1], targets[i], targets[i]))
                S.add('bin MINIMUM %d %d %d' % (tmp[2], targets[i], targets[i]))
            S.add('obs')
        S.add('snap %d' % f)
        if round_ == 0:
            # release everything, clear caches: the second round rebuilds with recycled handles
            for s in targets + tmp:
                S.add('attach %d -1' % s)
                S.add('attach %d %d' % (s, f))
            S.add('attach %d -1' % tg)
            S.add('attach %d %d' % (tg, g))
            S.add('clearall')
            S.add('snap %d' % f)
    return S.text()


# ---------------------------------------------------------------------------
# C13: variable reordering
# ---------------------------------------------------------------------------
HEURS = ['SD', 'BU', 'LI', 'HI', 'LC', 'LM', 'RA', 'LA']


def c13_script(rng, sizes, kind, rule, heur, swap, perms, nedges=4):
    import itertools
    sr, rngt, lab = KINDS[kind]
    rel = sr == 'R'
    S = Script()
    d = S.dom(sizes)
    f = S.forest(d, kind, rule, sto=rng.choice(STO), swap=swap, heur=heur)
    g = S.forest(d, kind, rule)         # a second forest over the same domain: must stay untouched
    npts = points_of(sizes, rel)
    pal = COPY_PAL.get(kind)
    es = [S.new(f) for _ in range(nedges)]
    eg = [S.new(g) for _ in range(2)]
    for e in es:
        table_coll(S, e, f, kind, rand_table(rng, kind, npts, pal, p_default=rng.choice([0.3, 0.6])), sizes)
    for e in eg:
        table_coll(S, e, g, kind, rand_table(rng, kind, npts, pal, p_default=0.5), sizes)
    # warm the compute tables
    op = 'UNION' if rngt == 'B' else ('MINIMUM' if lab == 'EP' else 'MAXIMUM')
    tmp = S.new(f)
    S.add('bin %s %d %d %d' % (op, tmp, es[0], es[1]))
    S.add('bin %s %d %d %d' % (op, es[-1], es[-1], es[0]))
    S.add('obs')
    for p in perms:
        S.add('reorder %d %s' % (f, ' '.join(map(str, p))))
        S.add('obs')
        # counting and enumeration in the new order (levels and variables no longer coincide)
        for e in es:
            S.add('card %d' % e)
            S.add('iter %d' % e)
        # functions of single variables: variables are named by number, not by level
        if rngt != 'B' or True:
            for vh in range(1, len(sizes) + 1):
                vs = sizes[vh - 1]
                if rngt == 'B':
                    terms = [rng.choice([0, 1]) for _ in range(vs)]
                else:
                    terms = [rng.choice([v for v in (pal or [1]) if v != INF] + [0]) for _ in range(vs)]
                for pr in ([0, 1] if rel else [0]):
                    S.add('var %d %d %d %d %d %s' % (tmp, f, vh, pr, len(terms), ' '.join(map(str, terms))))
        S.add('snap %d' % f)
        S.add('snap %d' % g)
        # the forest must still be usable: operations after the reordering
        S.add('bin %s %d %d %d' % (op, tmp, es[0], es[1]))
        S.add('bin %s %d %d %d' % (op, es[1], es[1], es[2 % nedges]))
        S.add('obs')
    return S.text()


def c13_order_script(rng, sizes, kind, rule, heur, perms):
    """order sweep: few edges, many target orders, each reached from the identity
    order and followed by the way back; only the order and the held functions are
    observed (cheap lines), so that schedules which need a particular inversion
    pattern among >= 5 variables are exercised"""
    S = Script()
    d = S.dom(sizes)
    f = S.forest(d, kind, rule, heur=heur)
    npts = points_of(sizes, False)
    pal = COPY_PAL.get(kind)
    es = [S.new(f) for _ in range(3)]
    for e in es[:2]:
        table_coll(S, e, f, kind, rand_table(rng, kind, npts, pal, p_default=rng.choice([0.3, 0.6])), sizes)
    op = 'UNION' if KINDS[kind][1] == 'B' else ('MINIMUM' if KINDS[kind][2] == 'EP' else 'MAXIMUM')
    S.add('bin %s %d %d %d' % (op, es[2], es[0], es[1]))
    S.add('obs')
    ident = list(range(1, len(sizes) + 1))
    for p in perms:
        S.add('reorder %d %s' % (f, ' '.join(map(str, p))))
        S.add('obs')
        S.add('reorder %d %s' % (f, ' '.join(map(str, ident))))
        S.add('obs')
    S.add('snap %d' % f)
    return S.text()


@plan('C13')
def plan_c13(tier, seed, rng):
    import itertools
    scripts = []
    n = 0
    kinds = ['mtb_s', 'mti_s', 'mtr_s', 'evp_s', 'mtb_r', 'mti_r']
    for kind in kinds:
        rel = KINDS[kind][0] == 'R'
        rules = gen.rules_of(kind)
        for heur in HEURS:
            swaps = ['V', 'L'] if rel else ['V']
            for swap in swaps:
                if tier != 'thorough' and rng.random() < 0.5 and heur != 'SD':
                    continue
                K = rng.choice([2, 3]) if rel else rng.choice([3, 4])
                sizes = [rng.choice([2, 3]) for _ in range(K)]
                while points_of(sizes, rel) > (81 if rel else 54):
                    sizes[rng.randrange(K)] = 2
                allp = list(itertools.permutations(range(1, K + 1)))
                rng.shuffle(allp)
                perms = allp[:(6 if tier == 'thorough' else 3)]
                scripts.append(('o%03d_%s_%s%s' % (n, kind, heur, swap),
                                c13_script(rng, sizes, kind, rng.choice(rules), heur, swap, perms)))
                n += 1
    # order sweeps over five variables
    all5 = list(itertools.permutations(range(1, 6)))
    for heur in HEURS:
        if tier != 'thorough' and heur not in ('LM', 'LC') and rng.random() < 0.6:
            continue
        for rule in ['F', 'Q']:
            sizes = [2] * 5 if rng.random() < 0.6 else rng.choice([[2, 3, 2, 2, 2], [2, 2, 2, 3, 2], [3, 2, 2, 2, 2]])
            if tier == 'thorough':
                perms = list(all5)
                rng.shuffle(perms)
            else:
                perms = rng.sample(all5, 40) + [(5, 4, 3, 2, 1)]
            scripts.append(('s%03d_%s%s' % (n, heur, rule), c13_order_script(rng, sizes, rng.choice(['mti_s', 'mtb_s', 'evp_s']), rule, heur, perms)))
            n += 1
    return dict(
        scripts=scripts, validators=[API, STORE], tags={'C13', 'HELD', 'C02', 'C11', 'C03'}, timeout=25, asan=True,
        mc=[('ReorderMC.tla', 'ReorderMC_F23.cfg', {})] + ([('ReorderMC.tla', 'ReorderMC_F32.cfg', {}), ('ReorderMC.tla', 'ReorderMC_Q23.cfg', {}),
                                                        ('ReorderMC.tla', 'ReorderMC_F232.cfg', {}),
                                                        ('ReorderMC.tla', 'ReorderMC_bug_scan.cfg', {'expect_violation': True}),
                                                        ('ReorderMC.tla', 'ReorderMC_bug_unique.cfg', {'expect_violation': True})] if tier == 'thorough' else []),
        rule='model (Reorder.tla): the adjacent-swap algorithm on a node table with variables of different sizes - every boolean function pair over <2,3> (thorough: <3,2>, quasi-reduced <2,3>, every function over <2,3,2> with up to 3 swaps) keeps Preserved (same function of the variables), Ordered, SizesOK, Unique and Reduced; the seeded slips scan_lsize and no_unique are refuted (thorough); implementation: '
             'per forest kind (MT boolean/integer/real sets, EV+ sets, MT boolean/integer relations) x scheduling heuristic (all eight) x swap method '
             '(relations: variable swap and level swap): several edges sharing nodes plus a warm compute table, then a sequence of target permutations '
             '(all 24 / 6 for small K in thorough); after each reordering every held edge is evaluated at every point and compared with PermuteFn of the '
             'specification, a second forest over the same domain must be unchanged, the node snapshot must satisfy the reduction rule and exact counts, '
             'and further operations must agree with the specification; order sweeps over five variables (quick: 41 targets, thorough: all 120, each reached from and followed by the identity order) per heuristic and rule; non-trivial = non-constant function',
        exhaustive=False,
    )


# ---------------------------------------------------------------------------
# C14: exchange files
# ---------------------------------------------------------------------------
def c14_script(rng, sizes, kind, rule, mode):
    """mode: 'same' (read back into the writing forest), 'other' (another
    forest of the same kind), 'new' (forest created from the file)"""
    sr, rngt, lab = KINDS[kind]
    rel = sr == 'R'
    S = Script()
    d = S.dom(sizes)
    f = S.forest(d, kind, rule, sto=rng.choice(STO))
    g = S.forest(d, kind, rule, sto=rng.choice(STO)) if mode == 'other' else None
    npts = points_of(sizes, rel)
    pal = COPY_PAL.get(kind)
    n = rng.choice([1, 3, 5])
    es = [S.new(f) for _ in range(n)]
    for i, e in enumerate(es):
        x = rng.random()
        if kind == 'idx_s':
            continue
        if x < 0.15:
            T = [gen.default_of(kind)] * npts                      # a terminal root
        elif x < 0.3 and KINDS[kind][1] != 'B':
            T = [rng.choice([v for v in pal if v != INF])] * npts   # a constant
        elif x < 0.4 and KINDS[kind][1] == 'B':
            T = [1] * npts
        else:
            T = rand_table(rng, kind, npts, pal, p_default=rng.choice([0.3, 0.6]))
        if KINDS[kind][2] == 'EP' and rng.random() < 0.5:
            # edge values that need more than 32 bits (the file holds them in decimal)
            T = [(rng.choice(WIDE_PAL) if (v != INF and rng.random() < 0.4) else v) for v in T]
        table_coll(S, e, f, kind, T, sizes)
    # shared sub-graphs: an edge built from the others; a repeated root
    if n >= 3 and KINDS[kind][1] == 'B':
        S.add('bin UNION %d %d %d' % (es[2], es[0], es[1]))
    roots = list(es)
    if n >= 3:
        roots.append(es[0])             # repeated root
    S.add('obs')
    S.add('write 0 %d %d %s' % (f, len(roots), ' '.join(map(str, roots))))
    outs = [S.slot() for _ in roots]
    if mode == 'same':
        S.add('read 0 %d %d %s' % (f, len(outs), ' '.join(map(str, outs))))
        S.add('obs')
        S.add('snap %d' % f)
    elif mode == 'other':
        S.add('read 0 %d %d %s' % (g, len(outs), ' '.join(map(str, outs))))
        S.add('obs')
        S.add('snap %d' % g)
    else:
        fnew = S.nfor
        S.nfor += 1
        S.forinfo[fnew] = dict(d=d, kind=kind, rule=rule, rel=rel)
        S.add('readnew 0 %d %d %d %s' % (d, fnew, len(outs), ' '.join(map(str, outs))))
        S.add('obs')
        # (the created forest has the default rule of its kind; with another
        # writing rule the known format limitation applies and the snapshot
        # is not taken)
        if rule == ('I' if rel else 'F'):
            S.add('snap %d' % fnew)
    # the receiving forest is still usable
    for o in outs:
        S.add('del %d' % o)
    S.add('clearall')
    S.add('snap %d' % f)
    return S.text()


@plan('C14')
def plan_c14(tier, seed, rng):
    scripts = []
    n = 0
    for kind in [k for k in KINDS if k != 'idx_s']:
        rel = KINDS[kind][0] == 'R'
        for rule in gen.rules_of(kind):
            for mode in ['same', 'other', 'new']:
                for rep in range(3 if tier == 'thorough' else 1):
                    sizes = hist_shapes(rng, rel)
                    scripts.append(('w%03d_%s%s_%s' % (n, kind, rule, mode), c14_script(rng, sizes, kind, rule, mode)))
                    n += 1
    return dict(
        scripts=scripts, validators=[API, STORE], tags={'C14', 'HELD', 'C02', 'C06'},
        rule='per forest kind x reduction rule x {read into the writing forest, into another forest of the same kind with an independent storage policy, '
             'into a forest created from the file}: lists of 1..6 root edges including terminal roots, constants, shared sub-graphs and a repeated root, '
             'written with mdd_writer to an in-memory stream and read back with mdd_reader; the functions read must equal the functions written, in order '
             '(reals on the dyadic grid, where the printed precision is exact); the receiving forest\'s node snapshot must satisfy the reduction rule and '
             'exact incoming counts (store validator); non-trivial = non-constant function',
        exhaustive=False,
    )


# ---------------------------------------------------------------------------
# C16: misuse
# ---------------------------------------------------------------------------
def c16_script(rng):
    S = Script()
    d0 = S.dom([2, 3, 2])
    d1 = S.dom([2, 3, 2])           # same shape, different domain object
    d2 = S.dom([3, 2])
    F = {}
    F['bs'] = S.forest(d0, 'mtb_s', rng.choice('FQ'))
    F['bs2'] = S.forest(d0, 'mtb_s', rng.choice('FQ'))
    F['is'] = S.forest(d0, 'mti_s', rng.choice('FQ'))
    F['rs'] = S.forest(d0, 'mtr_s', rng.choice('FQ'))
    F['ps'] = S.forest(d0, 'evp_s', rng.choice('FQ'))
    F['br'] = S.forest(d0, 'mtb_r', rng.choice('FQI'))
    F['ir'] = S.forest(d0, 'mti_r', rng.choice('FQI'))
    F['bs_d1'] = S.forest(d1, 'mtb_s', 'F')
    F['is_d1'] = S.forest(d1, 'mti_s', 'F')
    F['bs_d2'] = S.forest(d2, 'mtb_s', 'F')
    kinds = {'bs': 'mtb_s', 'bs2': 'mtb_s', 'is': 'mti_s', 'rs': 'mtr_s', 'ps': 'evp_s', 'br': 'mtb_r', 'ir': 'mti_r',
             'bs_d1': 'mtb_s', 'is_d1': 'mti_s', 'bs_d2': 'mtb_s'}
    sizes_of = {'bs_d2': [3, 2]}
    E = {}
    for k, f in F.items():
        sizes = sizes_of.get(k, [2, 3, 2])
        rel = KINDS[kinds[k]][0] == 'R'
        E[k] = [S.new(f), S.new(f)]
        for e in E[k]:
            table_coll(S, e, f, kinds[k], rand_table(rng, kinds[k], points_of(sizes, rel), ARITH_PAL.get(kinds[k]), p_default=0.5), sizes)
    allf = list(F.values())

    def check():
        S.add('obs')
        for f in rng.sample(allf, 3):
            S.add('snap %d' % f)

    check()
    cases = []
    # operands / result from different domains
    cases += ['bin UNION %d %d %d' % (E['bs'][0], E['bs'][1], E['bs_d1'][0]),
              'bin INTERSECTION %d %d %d' % (E['bs_d1'][1], E['bs'][0], E['bs'][1]),
              'bin PLUS %d %d %d' % (E['is'][0], E['is_d1'][0], E['is'][1]),
              'bin UNION %d %d %d' % (E['bs'][0], E['bs_d2'][0], E['bs'][1]),
              'un COPY %d %d' % (E['bs_d1'][0], E['bs'][0]),
              'un COMPLEMENT %d %d' % (E['bs_d2'][0], E['bs'][0])]
    # set versus relation
    cases += ['bin UNION %d %d %d' % (E['bs'][0], E['br'][0], E['bs'][1]),
              'bin DIFFERENCE %d %d %d' % (E['br'][0], E['br'][1], E['bs'][1]),
              'bin PLUS %d %d %d' % (E['is'][0], E['ir'][0], E['is'][1]),
              'un COPY %d %d' % (E['br'][0], E['bs'][0]),
              'un COMPLEMENT %d %d' % (E['br'][0], E['bs'][0]),
              'bin CROSS %d %d %d' % (E['bs'][0], E['bs'][0], E['bs'][1])]
    # range / labeling mismatches
    cases += ['bin PLUS %d %d %d' % (E['is'][0], E['is'][1], E['rs'][0]),
              'bin MINIMUM %d %d %d' % (E['ps'][0], E['is'][0], E['ps'][1]),
              'bin MULTIPLY %d %d %d' % (E['rs'][0], E['rs'][1], E['is'][0]),
              'bin UNION %d %d %d' % (E['bs'][0], E['ps'][0], E['bs'][1])]
    # a result edge attached to the wrong forest
    cases += ['coll %d %d MAX 0 1 1 0 1 0' % (E['bs'][0], F['bs2']),
              'const %d %d 3' % (E['bs'][0], F['is']),
              'var %d %d 1 0 0' % (E['is'][0], F['rs'])]
    # a value that does not fit a terminal
    cases += ['const %d %d 3000000000' % (E['is'][0], F['is']),
              'const %d %d -3000000000' % (E['is'][1], F['is'])]
    # ... and the boundary of the documented range [-2^30, 2^30 - 1]: just outside is refused, just inside is accepted
    cases += ['const %d %d %d' % (E['is'][rng.randrange(2)], F['is'], v)
              for v in (1073741825, 2147483647, -2147483648, -1073741825, 1073741823, -1073741823)]
    # dereferencing an exhausted iterator
    cases += ['iter %d deref' % E['bs'][0], 'iter %d deref' % E['ps'][0], 'iter %d deref' % E['br'][0]]
    # library state misuse
    cases += ['init']
    rng.shuffle(cases)
    for c in cases:
        S.add(c)
        check()
        # valid work in between: the forests stay usable
        k = rng.choice(['bs', 'is', 'ps'])
        op = {'bs': 'UNION', 'is': 'PLUS', 'ps': 'MINIMUM'}[k]
        S.add('bin %s %d %d %d' % (op, E[k][0], E[k][0], E[k][1]))
    # errors raised deep inside a recursion: the zero divisor / the infinite
    # subtrahend sits only in the last branch of a three-level function
    np_ = points_of([2, 3, 2], False)
    for rep in range(4):
        A = [rng.choice([1, 2, 3, 5, -7]) for _ in range(np_)]
        B = [rng.choice([1, 2, 3]) for _ in range(np_)]
        B[np_ - 1] = 0
        table_coll(S, E['is'][0], F['is'], 'mti_s', A, [2, 3, 2])
        table_coll(S, E['is'][1], F['is'], 'mti_s', B, [2, 3, 2])
        r = S.new(F['is'])
        S.add('bin %s %d %d %d' % (rng.choice(['DIVIDE', 'MODULO']), r, E['is'][0], E['is'][1]))
        check()
        P1 = [rng.choice([1, 2, 5]) for _ in range(np_)]
        P2 = [rng.choice([0, 1, 2]) for _ in range(np_)]
        P2[np_ - 1] = INF
        table_coll(S, E['ps'][0], F['ps'], 'evp_s', P1, [2, 3, 2])
        table_coll(S, E['ps'][1], F['ps'], 'evp_s', P2, [2, 3, 2])
        r2 = S.new(F['ps'])
        S.add('bin MINUS %d %d %d' % (r2, E['ps'][0], E['ps'][1]))
        check()
    # a product that does not fit a terminal, only in the last branch
    for rep in range(3):
        A = [rng.choice([1, 2, 3, 5, -7]) for _ in range(np_)]
        B = [rng.choice([1, 2, 3]) for _ in range(np_)]
        A[np_ - 1], B[np_ - 1] = rng.choice([(32768, 32768), (65536, 16384), (-32768, 32769), (46341, 46341), (1073741823, 2)])
        if rep == 2:        # the control: the largest products that still fit
            A[np_ - 1], B[np_ - 1] = rng.choice([(32768, -32768), (32767, 32768)])
        table_coll(S, E['is'][0], F['is'], 'mti_s', A, [2, 3, 2])
        table_coll(S, E['is'][1], F['is'], 'mti_s', B, [2, 3, 2])
        r = S.new(F['is'])
        S.add('bin MULTIPLY %d %d %d' % (r, E['is'][0], E['is'][1]))
        check()
    # EV+ division: the numerator is +infinity on a whole slab, the divisor is not
    # constant there and is 0 (or +infinity) at one point inside it
    for rep in range(4):
        slab = rng.randrange(2)                    # value of the top variable
        P1 = [INF if set_digits(r_, [2, 3, 2])[2] == slab else rng.choice([1, 2, 5]) for r_ in range(np_)]
        P2 = [rng.choice([1, 2, 3]) for _ in range(np_)]
        inside = [r_ for r_ in range(np_) if set_digits(r_, [2, 3, 2])[2] == slab]
        P2[rng.choice(inside)] = 0 if rep % 2 == 0 else INF
        table_coll(S, E['ps'][0], F['ps'], 'evp_s', P1, [2, 3, 2])
        table_coll(S, E['ps'][1], F['ps'], 'evp_s', P2, [2, 3, 2])
        r3 = S.new(F['ps'])
        S.add('bin %s %d %d %d' % (rng.choice(['DIVIDE', 'DIVIDE', 'MODULO']), r3, E['ps'][0], E['ps'][1]))
        check()
    # misuse of a detached edge
    det = S.new(-1)
    cases2 = ['bin UNION %d %d %d' % (E['bs'][0], det, E['bs'][1]),
              'bin UNION %d %d %d' % (det, E['bs'][0], E['bs'][1]),
              'un COPY %d %d' % (E['bs'][0], det),
              'un COMPLEMENT %d %d' % (det, E['bs'][0]),
              'card %d' % det, 'iter %d' % det, 'evalat %d 0 0 0' % det]
    for c in cases2:
        S.add(c)
        check()
    S.add('cleanup')
    S.add('cleanup')
    return S.text()


@plan('C16')
def plan_c16(tier, seed, rng):
    scripts = [('m%03d' % i, c16_script(rng)) for i in range(12 if tier == 'thorough' else 4)]
    return dict(
        scripts=scripts, validators=[API, STORE], tags={'C16', 'HELD', 'C02', 'C03', 'C04', 'C05', 'C10', 'C11'}, asan=True,
        mc=[('MddApiMC.tla', 'ApiLifeMC.cfg', {})],
        rule='model: ErrorAtomic (an error step changes nothing but the error code) on the bounded API state machine; implementation: every misuse in the '
             'catalogue - operands or result from another domain (same shape, other shape), set versus relation, range / labeling mismatch, a construction '
             'into an edge attached to another forest, integers that do not fit a terminal (far outside, and both sides of the boundary of [-2^30, 2^30-1]), dereferencing an exhausted iterator, double initialisation and '
             'double clean-up, operations, queries and evaluation on a detached edge, and errors met deep in a recursion (a zero divisor, infinite '
             'subtrahend or overflowing product only in the last branch of a three-level function; an EV+ divisor that is 0 or infinite at one point inside a slab where the numerator is infinite) - in seeded random order with valid operations in between; after every provoked '
             'error all held edges are re-evaluated (must be unchanged) and three forests are snapshot (must satisfy the reduction rule and exact counts); '
             'thorough repeats the executions under AddressSanitizer; non-trivial = an error outcome or a non-constant result',
        exhaustive=False,
    )


# ---------------------------------------------------------------------------
# C17: library / domain / forest lifecycles
# ---------------------------------------------------------------------------
def c17_script(rng, steps):
    S = Script()        # starts with 'init'
    lib = True
    doms = {}           # d -> sizes (alive)
    fors = {}           # f -> (d, kind) (alive)
    slots = {}          # slot -> forest index or None (detached); deleted slots are removed
    set_kinds = ['mtb_s', 'mti_s', 'evp_s']
    pairs = []          # (operand forest, result edge) of cross-forest COPY operations performed

    def alive_edges(f=None):
        return [s for s, g in slots.items() if g is not None and (f is None or g == f)]

    def detach_forest(f):
        for s in list(slots):
            if slots[s] == f:
                slots[s] = None

    for step in range(steps):
        r = rng.random()
        if not lib:
            if r < 0.15:
                S.add('cleanup')                    # misuse: not initialised
            else:
                S.add('init')
                lib = True
            S.add('obs')
            continue
        if r < 0.02:
            S.add('init')                           # misuse: already initialised
        elif (r < 0.06 and len(doms) < 3) or not doms:
            sizes = [rng.choice([2, 3]) for _ in range(rng.choice([1, 2]))]
            d = S.dom(sizes)
            doms[d] = sizes
        elif (r < 0.14 and len(fors) < 5) or not fors:
            d = rng.choice(list(doms))
            k = rng.choice(set_kinds)
            f = S.forest(d, k, rng.choice('FQ'), dele=rng.choice(DEL))
            fors[f] = (d, k)
        elif r < 0.24 or not alive_edges():
            f = rng.choice(list(fors) + [-1])
            s = S.new(f)
            slots[s] = f if f >= 0 else None
        elif r < 0.38:
            s = rng.choice(alive_edges())
            f = slots[s]
            d, k = fors[f]
            table_coll(S, s, f, k, rand_table(rng, k, points_of(doms[d], False), ARITH_PAL.get(k), p_default=0.5), doms[d])
        elif r < 0.68:
            # an operation inside a forest, or across two forests of one domain
            a = rng.choice(alive_edges())
            fa = slots[a]
            d, k = fors[fa]
            peers = [s for s in alive_edges() if fors[slots[s]][0] == d]
            b = rng.choice(peers)
            c = rng.choice(peers)
            if fors[slots[b]][1] == k and fors[slots[c]][1] == k:
                op = {'mtb_s': 'UNION', 'mti_s': 'PLUS', 'evp_s': 'MINIMUM'}[k]
                S.add('bin %s %d %d %d' % (op, c, a, b))
            else:
                S.add('un COPY %d %d' % (b, a))
                if slots[b] != fa:
                    pairs.append((fa, b))       # an operation from forest fa into the forest of edge b now exists
        elif r < 0.73 and slots:
            s = rng.choice(list(slots))
            t = S.slot()
            S.add('copy %d %d' % (t, s))
            slots[t] = slots[s]
        elif r < 0.77 and len(slots) >= 2:
            s, t = rng.sample(list(slots), 2)
            S.add('asg %d %d' % (s, t))
            slots[s] = slots[t]
        elif r < 0.80 and slots:
            s = rng.choice(list(slots))
            S.add('del %d' % s)
            del slots[s]
        elif r < 0.83 and slots:
            s = rng.choice(list(slots))
            f = rng.choice(list(fors) + [-1])
            S.add('attach %d %d' % (s, f))
            if f < 0:
                slots[s] = None
            elif slots[s] != f:
                slots[s] = f
        elif r < 0.88 and fors:
            f = rng.choice(list(fors))
            # prefer a forest that is the operand forest of a cross-forest operation whose result forest survives
            cand = [sf for (sf, ds) in pairs if sf in fors and ds in slots and slots[ds] is not None and slots[ds] != sf]
            if cand and rng.random() < 0.7:
                f = rng.choice(cand)
            d_old, k_old = fors[f]
            S.add('dfor %d' % f)
            del fors[f]
            detach_forest(f)
            S.add('obs')
            # a new forest of the same kind takes its place (possibly at the same address) and the same
            # kind of cross-forest operation is requested again
            targets = [ds for (sf, ds) in pairs if sf == f and ds in slots and slots[ds] is not None]
            if targets and d_old in doms:
                g = S.forest(d_old, k_old, rng.choice('FQ'), dele=rng.choice(DEL))
                fors[g] = (d_old, k_old)
                x = S.new(g)
                slots[x] = g
                table_coll(S, x, g, k_old, rand_table(rng, k_old, points_of(doms[d_old], False), ARITH_PAL.get(k_old), p_default=0.5), doms[d_old])
                for ds in targets[:2]:
                    S.add('un COPY %d %d' % (ds, x))
                    pairs.append((g, ds))
                S.add('obs')
            pairs[:] = [(sf, ds) for (sf, ds) in pairs if sf != f]
        elif r < 0.905 and doms:
            d = rng.choice(list(doms))
            S.add('ddom %d' % d)
            for f in [g for g in fors if fors[g][0] == d]:
                del fors[f]
                detach_forest(f)
            del doms[d]
            S.add('obs')
        elif r < 0.975:
            # use of a detached edge
            det = [s for s, g in slots.items() if g is None]
            if det and alive_edges():
                x = rng.choice(det)
                a = rng.choice(alive_edges())
                S.add(rng.choice(['bin UNION %d %d %d' % (a, x, a), 'un COPY %d %d' % (a, x), 'card %d' % x,
                                  'iter %d' % x, 'bin UNION %d %d %d' % (x, a, a)]))
        else:
            S.add('cleanup')
            lib = False
            doms.clear()
            fors.clear()
            for s in slots:
                slots[s] = None
        if step % 7 == 6 and lib:
            S.add('obs')
            for f in list(fors)[:2]:
                S.add('snap %d' % f)
    if lib:
        S.add('obs')
        S.add('cleanup')
    return S.text()


def api_graph_scripts(work, nd, nf, ns):
    """spec -> code, exhaustively: TLC explores MddApiGen (the bounded lifecycle
    model with the ghost variable `last` = the driver command of the step) and
    dumps its state graph; every transition u -> v becomes one execution: the
    commands along a shortest path to u, then the command of v, then `obs`.
    Executions that are a strict prefix of another are dropped (their
    transitions are replayed by the longer one).  Returns (scripts, stats)."""
    import re as _re
    import collections
    os.makedirs(work, exist_ok=True)
    cfg = os.path.join(V.SPEC, 'MddApiGen_run_%d%d%d.cfg' % (nd, nf, ns))
    dot = os.path.join(work, 'apigraph')
    with open(cfg, 'w') as f:
        f.write('SPECIFICATION GSpec\nCONSTANTS\n  ND = %d\n  NF = %d\n  NS = %d\nINVARIANT Inv\nCHECK_DEADLOCK FALSE\n' % (nd, nf, ns))
    try:
        rc, out = V.run_tlc('MddApiGen.tla', cfg, os.path.join(work, 'md-apigen'), workers=8, xmx='8g',
                            extra=['-dump', 'dot', dot], timeout=1800)
    finally:
        os.remove(cfg)
    if rc != 0:
        raise Machinery('TLC failed on MddApiGen: ' + out[-1500:])
    nodes, edges, init = {}, collections.defaultdict(list), None
    node_re = _re.compile(r'^(-?\d+) \[label="/\\\\ last = \\"([^"\\]*)\\"')
    edge_re = _re.compile(r'^(-?\d+) -> (-?\d+) ')
    with open(dot + '.dot') as f:
        for line in f:
            m = edge_re.match(line)
            if m:
                edges[m.group(1)].append(m.group(2))
                continue
            m = node_re.match(line)
            if m:
                nodes[m.group(1)] = m.group(2)
                if 'style = filled' in line:
                    init = m.group(1)
    os.remove(dot + '.dot')
    if init is None or not nodes:
        raise Machinery('could not parse the state graph of MddApiGen')
    par = {init: None}
    q = collections.deque([init])
    while q:
        u = q.popleft()
        for v in edges[u]:
            if v not in par:
                par[v] = u
                q.append(v)
    if len(par) != len(nodes):
        raise Machinery('state graph of MddApiGen is not connected from its initial state')

    def path(u):
        p = []
        while par[u] is not None:
            p.append(nodes[u])
            u = par[u]
        return p[::-1]

    ntrans = 0
    S = set()
    for u in list(edges):
        pu = path(u)
        for v in edges[u]:
            ntrans += 1
            S.add(tuple(pu + [nodes[v]]))
    pref = set()
    for sc in S:
        for k in range(1, len(sc)):
            pref.add(sc[:k])
    final = sorted(sc for sc in S if sc not in pref)
    scripts = [('t%05d' % i, '\n'.join(sc) + '\nobs\n') for i, sc in enumerate(final)]
    return scripts, dict(states=len(nodes), transitions=ntrans, executions=len(scripts), bounds=(nd, nf, ns))


def c17_survivor_script(rng):
    """survivor audit: operations spanning two forests fill the compute tables, one
    of the two forests is destroyed, the survivor keeps working and is finally
    emptied: every edge released, caches cleared - it must hold no node, and every
    node's cache count must equal the number of table entries that mention it"""
    sizes = rng.choice([[3, 3], [2, 3, 2], [4, 3]])
    S = Script()
    d = S.dom(sizes)
    k1 = 'mtb_s'
    k2 = rng.choice(['mti_s', 'mtb_s', 'evp_s'])
    f1 = S.forest(d, k1, rng.choice('FQ'), dele=rng.choice(['O', 'P']))
    f2 = S.forest(d, k2, rng.choice('FQ'), dele=rng.choice(['O', 'P']))
    f3 = S.forest(d, k1, rng.choice('FQ'), dele=rng.choice(['O', 'P']))
    ns = points_of(sizes, False)
    e1 = [S.new(f1) for _ in range(5)]
    e2 = [S.new(f2) for _ in range(3)]
    e3 = [S.new(f3) for _ in range(2)]
    for e in e1[:3]:
        table_coll(S, e, f1, k1, rand_table(rng, k1, ns), sizes)
    S.add('bin UNION %d %d %d' % (e1[3], e1[0], e1[1]))
    S.add('bin INTERSECTION %d %d %d' % (e1[4], e1[3], e1[2]))
    # entries that span f1 and the forest about to be destroyed, in both directions
    for i in range(3):
        S.add('un COPY %d %d' % (e2[i], e1[i + 1]))
    S.add('un COPY %d %d' % (e3[0], e1[3]))
    S.add('bin UNION %d %d %d' % (e3[1], e1[0], e3[0]))        # operands from two forests
    if k2 == 'mtb_s':
        S.add('bin UNION %d %d %d' % (e1[0], e2[0], e1[1]))
    else:
        S.add('un COPY %d %d' % (e1[0], e2[1]))
    S.add('obs')
    victim, victim_edges = rng.choice([(f2, e2), (f2, e2), (f3, e3)])
    S.add('dfor %d' % victim)
    S.add('obs')
    S.add('snap %d' % f1)
    # the survivor keeps working
    S.add('bin DIFFERENCE %d %d %d' % (e1[2], e1[3], e1[4]))
    S.add('bin UNION %d %d %d' % (e1[1], e1[2], e1[0]))
    S.add('obs')
    for e in e1:
        S.add('del %d' % e)
    S.add('clearall')
    S.add('snap %d' % f1)
    other = f3 if victim == f2 else f2
    for e in (e3 if victim == f2 else e2):
        S.add('del %d' % e)
    S.add('clearall')
    S.add('snap %d' % other)
    return S.text()


@plan('C17')
def plan_c17(tier, seed, rng):
    scripts = [('y%03d' % i, c17_script(rng, 160 if tier == 'thorough' else 90)) for i in range(40 if tier == 'thorough' else 10)]
    scripts += [('a%03d' % i, c17_survivor_script(rng)) for i in range(16 if tier == 'thorough' else 6)]
    # every transition of the bounded lifecycle model, replayed in the library
    gwork = os.path.join(VERIF, 'work', 'C17-gen-%s' % tier)
    gstats = []
    for (nd, nf, ns) in ([(1, 2, 2)] if tier == 'thorough' else [(1, 1, 2)]):
        gs, st = api_graph_scripts(gwork, nd, nf, ns)
        scripts += [('b%d%d%d_%s' % (nd, nf, ns, nm), text) for nm, text in gs]
        gstats.append(st)
    shutil.rmtree(gwork, ignore_errors=True)
    return dict(
        scripts=scripts, validators=[API, STORE], tags={'C17', 'C16', 'HELD', 'C06', 'C07', 'C02'}, asan=True, asan_sample_prefix='b',
        mc=[('MddApiMC.tla', 'ApiLifeMC3.cfg' if tier == 'thorough' else 'ApiLifeMC.cfg', {})],
        rule='spec -> code: every transition of the bounded lifecycle model MddApiGen %s is replayed through the library (one execution per transition: a shortest path to its source state, the step, an observation of all edges) and validated; ' % '; '.join('bounds ND,NF,NS=%s: %d states, %d transitions, %d executions' % (st['bounds'], st['states'], st['transitions'], st['executions']) for st in gstats) +
             'model: every order of initialise / create domain / create forest / new, copy, assign, attach, delete edge / build / union / destroy forest / '
             'destroy domain / clean up within 2 domains, 2 (thorough 3) forests and 2 (3) edges, with invariants AttachedIsLive, FidUnique and action '
             'properties FidMonotone, FidNeverReused, OtherDomainsUntouched, ErrorAtomic; implementation: seeded random lifecycles over up to 3 domains and 5 '
             'forests (boolean, integer and EV+ sets) with compute tables populated by operations inside and across forests of a domain, forests and domains '
             'destroyed while edges are attached, detached edges used in operations and queries, repeated initialise / clean-up cycles incl. double calls; after '
             'each step the specification\'s state (forest identifiers, attachment and function of every edge) is compared with the library\'s; surviving forests '
             'are snapshot; survivor audits: after operations spanning two forests one of them is destroyed, the survivor keeps working, is emptied (edges released, caches cleared) and must hold no node, with cache counts equal to the table entries that mention each node; thorough repeats the executions under AddressSanitizer; non-trivial = non-constant function or an error outcome',
        exhaustive=False,
    )


# ---------------------------------------------------------------------------
# C18: memory managers
# ---------------------------------------------------------------------------
MEM = ('MemMgrTrace.tla', 'MemMgrTrace.cfg', 'mem')


def c18_script(rng, style, gran, nops, pattern):
    lines = ['mm %s %d 2' % (style, gran)]
    live = []
    nid = 0
    maxsz = 15 if style == 'FL' else rng.choice([8, 40, 300])

    def size():
        x = rng.random()
        if pattern == 'huge' and style != 'FL' and x < 0.12:
            # a single request that is large compared with everything allocated so far
            return rng.choice([700, 900, 1500, 3000, 6000])
        if x < 0.5:
            return rng.randint(2, min(8, maxsz))
        if x < 0.85:
            return rng.randint(2, min(40, maxsz))
        return rng.randint(2, maxsz)

    for step in range(nops):
        if pattern == 'churn':
            grow = rng.random() < (0.55 if len(live) < 60 else 0.4)
        elif pattern == 'sawtooth':
            grow = (step // 150) % 2 == 0
        elif pattern == 'holes':
            # allocate a run, free every other chunk (creates holes), then allocate sizes that split / exactly fill them
            grow = (step % 40) < 25
        else:
            grow = rng.random() < 0.5
        if grow or not live:
            nid += 1
            lines.append('req %d %d' % (nid, size()))
            live.append(nid)
        else:
            if pattern == 'holes':
                i = (step * 2) % len(live)
            elif pattern == 'sawtooth' and rng.random() < 0.5:
                i = len(live) - 1
            else:
                i = rng.randrange(len(live))
            lines.append('rec %d' % live.pop(i))
        if step % 50 == 49:
            lines.append('chk')
    lines.append('chk')
    rng.shuffle(live)
    for i in live:
        lines.append('rec %d' % i)
    # after everything was recycled the memory must be usable again
    for k in range(10):
        nid += 1
        lines.append('req %d %d' % (nid, size()))
    lines.append('chk')
    return '\n'.join(lines) + '\n'


@plan('C18')
def plan_c18(tier, seed, rng):
    scripts = []
    n = 0
    for style in ['OG', 'AG', 'HE', 'MA', 'FL']:
        for gran in [4, 8]:
            for pattern in ['churn', 'sawtooth', 'holes', 'random', 'huge']:
                reps = 3 if tier == 'thorough' else 1
                for _ in range(reps):
                    scripts.append(('g%03d_%s%d_%s' % (n, style, gran, pattern),
                                    c18_script(rng, style, gran, 6000 if tier == 'thorough' else 700, pattern)))
                    n += 1
    return dict(
        scripts=scripts, prog='memdrive', validators=[MEM], tags={'C18'}, asan=True, timeout=60,
        mc=[('MemMgrMC.tla', 'MemMgrMC.cfg', {})],
        rule='model: MemMgrMC - every request / recycle sequence over an arena of 10 slots with every placement a hole manager may choose (invariants '
             'NoOverlap, InArena, Conservation); implementation: for each of the five styles (original grid, array+grid, heap, malloc, free lists) and both '
             'slot widths (4 and 8 bytes), seeded request / recycle sequences in five patterns (steady churn, grow-and-shrink sawtooth, hole creation followed '
             'by splitting and exact-fit requests, uniform random, small requests mixed with single requests of 700..6000 slots that outgrow the arena) with sizes '
             'from the minimum up (free lists: to their 15-slot limit); every live '
             'chunk carries a pattern derived from its identity that is verified before it is recycled and at checkpoints; TLC accepts a request only if the '
             'chunk is at least as large as requested, its handle non-zero, and disjoint from every live chunk of the specification\'s state, and a recycle only '
             'of a live chunk with intact contents; thorough repeats the executions under AddressSanitizer; non-trivial = request served while other chunks are live',
        exhaustive=False,
    )


# ---------------------------------------------------------------------------
# C19: terminal and edge-value encoding
# ---------------------------------------------------------------------------
CODEC = ('CodecTrace.tla', 'CodecTrace.cfg', 'codec')


@plan('C19')
def plan_c19(tier, seed, rng):
    n = 16 if tier == 'thorough' else 4
    count = 12000 if tier == 'thorough' else 5000
    scripts = [('c%02d' % i, '%d %d\n' % (seed * 1000 + i, count)) for i in range(n)]
    return dict(
        scripts=scripts, prog='codecdrive', validators=[CODEC], tags={'C19'},
        mc=[('CodecMC.tla', 'CodecMC.cfg', {})],
        rule='model: Codec checked by TLC for *every* word of widths 6, 8, 10 and 12 bits (round trip of every integer of the range, injectivity, zero <=> '
             'transparent handle, real round trip up to the dropped low bit, distinct rounded values get distinct handles); implementation (32-bit handles): '
             'both booleans; integers 0, +-1, +-2^k, +-2^k+-1 for every k, both range ends and the values just outside (VALUE_OVERFLOW required), seeded '
             'random words; floats: both zeros, the smallest subnormals, every exponent with boundary and random mantissas, both infinities, largest finite, '
             'seeded random non-NaN bit patterns - each through class terminal and through forest::handleForValue / getValueFromHandle; constants through '
             'createConstant + evaluate in MT and EV+ forests including +infinity; TLC recomputes EncInt / EncReal / DecInt / DecReal with Q = 2^30 on every '
             'line; non-trivial = every line.  The full 2^32 sweep is beyond TLC (see DESIGN.md section 8)',
        exhaustive=False,
    )
