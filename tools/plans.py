"""Per-property plans: what to model-check, what to drive, what to validate."""
import json
import os
import random
import shutil
import sys
import time

import vcheck as V
from vcheck import log, Machinery, VERIF
import gen
from gen import Script, KINDS, INF

PLANS = {}


def plan(prop):
    def deco(fn):
        PLANS[prop] = fn
        return fn
    return deco


# every plan returns a dict:
#   mc        : [(module, cfg, kwargs)]      bounded model checking of the design
#   scripts   : [(name, text)]               executions to run against the code
#   lifecycle : bool                          record node / CT lifecycle events
#   validators: [(module, cfg, tag)]         trace specifications to validate with
#   tags      : set of violation tags that belong to this property
#   rule, assumptions, exhaustive, variant


API = ('MddApiTrace.tla', 'MddApiTrace.cfg', 'api')
STORE = ('MddStoreTrace.tla', 'MddStoreTrace.cfg', 'store')

BASE_ASSUMPTIONS = [
    'TLC 1.8.0 and the CommunityModules Json/IOUtils overrides are trusted',
    'the driver (harness/mdrive.cc) faithfully records arguments and the results the public API returns; it computes no expected value',
    'function tables are obtained with dd_edge::evaluate at every point of the domain; evaluate is cross-checked against the iterator (C11) and against the node snapshot denotation (C02/C03)',
    'integers stay below 2^30 in magnitude; reals lie on the dyadic grid k/64 where float arithmetic is exact; points whose value leaves the grid are not compared',
    'bounded exploration: exhaustive only for the tiny domains named in the rule, sampled (seeded) elsewhere',
]


def run(prop, tier, seed, t0):
    if prop not in PLANS:
        print('unknown property', prop)
        return 2
    work = os.path.join(VERIF, 'work', '%s-%s' % (prop, tier))
    shutil.rmtree(work, ignore_errors=True)
    os.makedirs(work)
    rng = random.Random(seed * 1000003 + int(prop[1:]))
    P = PLANS[prop](tier, seed, rng)
    bindir = V.build(P.get('variant', 'rel'))

    states = trans = 0
    mc_failed = []
    mc_info = []
    for module, cfg, kw in P.get('mc', []):
        st, tr, out = V.model_check(module, cfg, work, **kw)
        states += st
        trans += tr
        mc_info.append({'config': cfg, 'distinct_states': st, 'states_generated': tr})
        if not kw.get('expect_violation') and 'No error has been found' not in out:
            mc_failed.append((cfg, out))

    scripts = P.get('scripts', [])
    traces = V.run_scripts(bindir, scripts, work, prog=P.get('prog', 'mdrive'), lifecycle=P.get('lifecycle', False),
                           timeout=P.get('timeout', 120)) if scripts else []
    script_of = {}
    for (name, _), t in zip(scripts, traces):
        script_of[t] = os.path.join(work, 'scripts', name + '.txt')

    viols = []
    nlines = 0
    for module, cfg, tag in P.get('validators', []):
        v, k, st, tr, nl = V.validate(traces, module, cfg, work, tag=tag, env=P.get('env'))
        viols += v
        states += st
        trans += tr
        nlines += nl

    tags = set(P['tags']) | {prop, 'CRASH', 'MODEL'}
    mine = [v for v in viols if v[0] in tags]
    others = [v for v in viols if v[0] not in tags]
    if others:
        log('[note] %d observations tagged for other properties (reported by their own checks): %s'
            % (len(others), sorted(set((o[0], o[1]) for o in others))[:8]))
        for o in others[:3]:
            log('       e.g. %s %s %s line %d' % (o[0], o[1], o[2], o[3]))

    # MODEL-tagged records mean the specification could not interpret a line:
    # that is a failure of the machinery, not a verdict
    model = [v for v in mine if v[0] == 'MODEL']
    if model:
        raise Machinery('trace lines the specification does not model: %s' % sorted(set(m[1] for m in model))[:5])

    # named deviations (kind "KF:<key>"): a listed key is a known finding,
    # an unlisted one is a violation like any other
    kf = V.load_known()
    listed = {e['key']: e for e in kf.get('findings', [])}
    known = {}
    rest = []
    for v in mine:
        key = v[1][3:] if v[1].startswith('KF:') else None
        if key is not None and key in listed and listed[key]['property'] in tags:
            known.setdefault(key, []).append(v)
        else:
            rest.append(v)
    mine = rest

    nviol = 0
    out_lines = []
    for cfg, out in mc_failed:
        nviol += 1
        d = os.path.join(VERIF, 'replays', '%s-%d-mc' % (prop, seed))
        shutil.rmtree(d, ignore_errors=True)
        os.makedirs(d)
        with open(os.path.join(d, 'tlc-output.txt'), 'w') as f:
            f.write(out)
        out_lines.append('VIOLATION property=%s replay=%s' % (prop, d))
    seen = set()
    for (p, kind, trace, line) in mine:
        key = (p, kind, trace)
        if key in seen:
            continue
        seen.add(key)
        nviol += 1
        if nviol <= 12:
            d = V.save_replay(prop, seed, nviol, lambda t: script_of.get(t), trace, kind, line)
            out_lines.append('VIOLATION property=%s replay=%s' % (prop, d))
            log('  -> %s %s (%s line %d)' % (p, kind, os.path.basename(trace), line))

    for k in sorted(known):
        ent = listed[k]
        out_lines.append('KNOWN-FINDING: property=%s %s [%s; %d occurrences in this run]' % (ent['property'], ent['what'], k, len(known[k])))

    evals, distinct, samples, per_event = V.trace_census(traces, V.nontrivial_result)
    if not samples:
        samples = [{'note': 'model-checking only run', 'configs': mc_info}]
    cov = {
        'states': max(states, 1), 'transitions': max(trans, 1),
        'traces_validated_against_impl': len(traces),
        'samples': samples,
        'evaluations': evals, 'distinct_nontrivial': distinct,
        'rule': P.get('rule', ''),
        'exhaustive': bool(P.get('exhaustive', False)),
        'trace_lines_validated': nlines,
        'events_by_type': per_event,
        'model_checking': mc_info,
        'known_findings_hit': sorted(known),
    }
    V.write_evidence(prop, tier, seed, cov, time.time() - t0, nviol, BASE_ASSUMPTIONS + P.get('assumptions', []))
    for ln in out_lines:
        print(ln)
    print('%s %s: %d executions, %d trace lines, %d TLC states, %d violations, %d known findings, %.0fs'
          % (prop, tier, len(traces), nlines, states, nviol, len(known), time.time() - t0))
    if not os.environ.get('VERIF_KEEP'):
        shutil.rmtree(work, ignore_errors=True)
    return 1 if nviol else 0


def replay(path):
    """re-execute a saved script against the current tree and re-validate"""
    path = path.rstrip('/')
    why = json.load(open(os.path.join(path, 'why.json'))) if os.path.exists(os.path.join(path, 'why.json')) else {}
    prop = why.get('property', os.path.basename(path).split('-')[0])
    sp = os.path.join(path, 'script.txt')
    if not os.path.exists(sp):
        print(open(os.path.join(path, 'tlc-output.txt')).read()[-3000:])
        return 1
    work = os.path.join(VERIF, 'work', 'replay-%d' % os.getpid())
    os.makedirs(work, exist_ok=True)
    try:
        bindir = V.build('rel')
        P = PLANS[prop]('quick', 1, random.Random(1)) if prop in PLANS else {}
        traces = V.run_scripts(bindir, [('replay', open(sp).read())], work, lifecycle=P.get('lifecycle', False))
        bad = 0
        for module, cfg, tag in P.get('validators', [API]):
            v, k, st, tr, nl = V.validate(traces, module, cfg, work, tag=tag, nshards=1)
            for (p, kind, t, line) in v:
                print('replay: %s %s at trace line %d' % (p, kind, line))
                bad += 1
        print('replay of %s: %d violation records' % (path, bad))
        return 1 if bad else 0
    finally:
        shutil.rmtree(work, ignore_errors=True)


# ---------------------------------------------------------------------------
# C03: construction and evaluation
# ---------------------------------------------------------------------------
def build_kinds():
    return [k for k in KINDS if k != 'idx_s']


def c03_script(rng, sizes, kind, rule, n_cases, exhaustive_single=False, sto='E'):
    S = Script()
    d = S.dom(sizes)
    f = S.forest(d, kind, rule, sto=sto)
    rel = KINDS[kind][0] == 'R'
    pal = gen.palette(kind)
    dflt0 = gen.default_of(kind)
    e = S.new(f)
    if exhaustive_single:
        # every single minterm, one value, transparent default (and, for
        # numeric MT kinds, a second non-transparent default)
        for a in gen.all_minterms(sizes, rel):
            v = rng.choice(pal)
            S.coll(e, f, 'ONE', dflt0, [(v, a)])
    for _ in range(n_cases):
        n = rng.choice([1, 1, 2, 2, 3, 4, 6, 10, 24])
        mts = [(rng.choice(pal), gen.rand_minterm(rng, sizes, rel)) for _ in range(n)]
        mode, dflt = gen.pick_mode_default(rng, kind, [v for v, _ in mts])
        if n == 1 and rng.random() < 0.5:
            mode = 'ONE'
            dflt = rng.choice([dflt0] + ([0] if KINDS[kind][1] != 'B' else []) + ([rng.choice(pal)] if KINDS[kind][1] != 'B' else []))
        S.coll(e, f, mode, dflt, mts)
    # constants
    for v in ([0, 1] if KINDS[kind][1] == 'B' else pal + [0] + ([INF] if KINDS[kind][2] == 'EP' else [])):
        S.add('const %d %d %s' % (e, f, v))
    # variables
    K = len(sizes)
    for vh in range(1, K + 1):
        for pr in ([0, 1] if rel else [0]):
            if KINDS[kind][1] != 'B':
                S.add('var %d %d %d %d 0' % (e, f, vh, pr))
            terms = [rng.choice(pal + [0]) for _ in range(sizes[vh - 1])]
            S.add('var %d %d %d %d %d %s' % (e, f, vh, pr, len(terms), ' '.join(map(str, terms))))
    S.add('snap %d' % f)
    return S.text()


@plan('C03')
def plan_c03(tier, seed, rng):
    scripts = []
    tiny = [[2], [3], [2, 2], [2, 3]]
    n = 0
    for kind in build_kinds():
        for rule in gen.rules_of(kind):
            rel = KINDS[kind][0] == 'R'
            shapes = ([[2], [3], [2, 2]] if rel else tiny) if tier == 'thorough' else [rng.choice([[2], [3]] if rel else tiny)]
            for sizes in shapes:
                scripts.append(('x%03d' % n, c03_script(rng, sizes, kind, rule, 6, exhaustive_single=True)))
                n += 1
            reps = 6 if tier == 'thorough' else 1
            for _ in range(reps):
                sizes = gen.rand_sizes(rng, 16 if rel else 256, maxvars=(3 if rel else 4))
                scripts.append(('r%03d' % n, c03_script(rng, sizes, kind, rule, 40 if tier == 'thorough' else 14,
                                                        sto=rng.choice(['E', 'F', 'S']))))
                n += 1
    return dict(
        scripts=scripts, validators=[API], tags={'C03'},
        rule='every single minterm (fixed / don\'t-care / don\'t-change in every position) on tiny shapes per forest kind x reduction rule, '
             'plus seeded random collections (1..24 overlapping minterms, MAX/MIN/single, defaults allowed by the API), constants and '
             'createEdgeForVar on random shapes up to 4 variables of sizes 2..5; a case is non-trivial when the resulting table is not constant; '
             'distinct = distinct recorded call lines',
        exhaustive=False,
    )


# ---------------------------------------------------------------------------
# C04: set algebra
# ---------------------------------------------------------------------------
def bits_to_coll(bits, sizes, rel):
    """minterm list for the boolean function whose table is bits (rank order)"""
    ds = []
    for s in sizes:
        ds += [s, s] if rel else [s]
    K = len(sizes)
    mts = []
    for r, b in enumerate(bits):
        if not b:
            continue
        x = r
        digs = []
        for s in ds:
            digs.append(x % s)
            x //= s
        if rel:
            un = [digs[2 * k + 1] for k in range(K)]
            pr = [digs[2 * k] for k in range(K)]
            mts.append((1, un + pr))
        else:
            mts.append((1, digs))
    return mts


def c04_script(rng, sizes, rel, forests, cases, clear_between=False, cross=False):
    """forests: list of rule letters for boolean forests over the domain;
    cases: list of (bitsA, bitsB, fa, fb, fr, op)"""
    S = Script()
    d = S.dom(sizes)
    fs = [S.forest(d, 'mtb_r' if rel else 'mtb_s', r) for r in forests]
    if cross:
        frel = [S.forest(d, 'mtb_r', r) for r in ['F', 'Q', 'I']]
    ea = {f: S.new(f) for f in fs}
    eb = {f: S.new(f) for f in fs}
    er = {f: S.new(f) for f in (frel if cross else fs)}
    for (A, B, fa, fb, fr, op) in cases:
        S.coll(ea[fs[fa]], fs[fa], 'MAX', 0, bits_to_coll(A, sizes, rel))
        if op != 'COMPLEMENT':
            S.coll(eb[fs[fb]], fs[fb], 'MAX', 0, bits_to_coll(B, sizes, rel))
            rf = (frel if cross else fs)[fr]
            S.add('bin %s %d %d %d' % (op, er[rf], ea[fs[fa]], eb[fs[fb]]))
            S.add('obs %d %d' % (ea[fs[fa]], eb[fs[fb]]))
        else:
            S.add('un COMPLEMENT %d %d' % (er[fs[fr]], ea[fs[fa]]))
            S.add('obs %d' % ea[fs[fa]])
        if clear_between:
            S.add('clearall')
    for f in fs:
        S.add('snap %d' % f)
    return S.text()


@plan('C04')
def plan_c04(tier, seed, rng):
    scripts = []
    n = 0
    ops = ['UNION', 'INTERSECTION', 'DIFFERENCE']

    def allbits(npts):
        return [[(x >> i) & 1 for i in range(npts)] for x in range(1 << npts)]

    # sets over <2,2>: all 16 x 16 pairs x 3 ops, forest triples from {F, F', Q}
    setF = ['F', 'F', 'Q']
    fn4 = allbits(4)
    triples = [(a, b, c) for a in range(3) for b in range(3) for c in range(3)]
    rng.shuffle(triples)
    use = triples if tier == 'thorough' else triples[:4]
    for (fa, fb, fr) in use:
        cases = [(A, B, fa, fb, fr, op) for A in fn4 for B in fn4 for op in ops]
        cases += [(A, A, fa, fa, fr, 'COMPLEMENT') for A in fn4]
        rng.shuffle(cases)
        scripts.append(('s22_%03d' % n, c04_script(rng, [2, 2], False, setF, cases, clear_between=(n % 2 == 1))))
        n += 1
    # relations over <2>: all 16 x 16 pairs, triples from {I, I', F, Q}; the
    # combinations with two distinct identity-reduced forests are the ones C04
    # names explicitly
    relF = ['I', 'I', 'F', 'Q']
    rt = [(a, b, c) for a in range(4) for b in range(4) for c in range(4)]
    rng.shuffle(rt)
    use = rt if tier == 'thorough' else rt[:6]
    for (fa, fb, fr) in use:
        cases = [(A, B, fa, fb, fr, op) for A in fn4 for B in fn4 for op in ops]
        cases += [(A, A, fa, fa, fr, 'COMPLEMENT') for A in fn4]
        rng.shuffle(cases)
        # one execution per operation family so that a crash in one does not hide the others
        for op in ops + ['COMPLEMENT']:
            sub = [c for c in cases if c[5] == op]
            scripts.append(('r2_%03d_%s' % (n, op[:3]), c04_script(rng, [2], True, relF, sub, clear_between=(n % 2 == 1))))
        n += 1
    # random larger shapes, sets and relations
    reps = 24 if tier == 'thorough' else 6
    for i in range(reps):
        rel = (i % 2 == 1)
        sizes = gen.rand_sizes(rng, 12 if rel else 120, maxvars=(2 if rel else 4), maxsize=4)
        npts = 1
        for s in sizes:
            npts *= s * s if rel else s
        F = relF if rel else setF
        cases = []
        for _ in range(60 if tier == 'thorough' else 30):
            dens = rng.choice([0.1, 0.3, 0.5, 0.8])
            A = [1 if rng.random() < dens else 0 for _ in range(npts)]
            B = [1 if rng.random() < dens else 0 for _ in range(npts)]
            op = rng.choice(ops + ['COMPLEMENT'])
            fa, fb, fr = rng.randrange(len(F)), rng.randrange(len(F)), rng.randrange(len(F))
            cases.append((A, B, fa, fb, fr, op))
        scripts.append(('rnd_%03d' % n, c04_script(rng, sizes, rel, F, cases)))
        n += 1
    # cross product: all pairs of sets over <2,2> (thorough) / sampled, into each relation rule
    for i in range(3 if tier == 'thorough' else 1):
        cases = [(A, B, rng.randrange(3), rng.randrange(3), rng.randrange(3), 'CROSS') for A in fn4 for B in fn4]
        rng.shuffle(cases)
        scripts.append(('x22_%03d' % n, c04_script(rng, [2, 2], False, setF, cases, cross=True)))
        n += 1
    return dict(
        scripts=scripts, validators=[API], tags={'C04', 'HELD'},
        rule='all 16x16 pairs of boolean sets over <2,2> and of boolean relations over <2>, for UNION / INTERSECTION / DIFFERENCE (+ COMPLEMENT of all 16), '
             'with operand/result forests drawn from {fully, second fully, quasi} (sets) and {identity, second identity, fully, quasi} (relations) - '
             'a seeded subset of the forest triples in quick, all 27 / 64 triples in thorough; alternately with a warm compute table and with all tables '
             'cleared after every call; CROSS for all pairs over <2,2>; plus seeded random pairs on shapes up to 4 variables; operands are re-evaluated '
             'after every call (tag HELD); non-trivial = result table not constant',
        exhaustive=(tier == 'thorough'),
    )


# ---------------------------------------------------------------------------
# helpers shared by the function-level plans
# ---------------------------------------------------------------------------
def points_of(sizes, rel):
    n = 1
    for s in sizes:
        n *= s * s if rel else s
    return n


def rank_to_assignment(r, sizes, rel):
    ds = []
    for s in sizes:
        ds += [s, s] if rel else [s]
    digs = []
    x = r
    for s in ds:
        digs.append(x % s)
        x //= s
    K = len(sizes)
    if rel:
        return [digs[2 * k + 1] for k in range(K)] + [digs[2 * k] for k in range(K)]
    return digs


def table_coll(S, e, f, kind, table, sizes):
    """emit a 'coll' command that builds exactly the given table (list of
    script values by rank) in edge e of forest f"""
    sr, rng, lab = KINDS[kind]
    rel = sr == 'R'
    dflt = gen.default_of(kind)
    if lab in ('EP', 'IX'):
        mts = [(v, rank_to_assignment(r, sizes, rel)) for r, v in enumerate(table) if v != INF]
        S.coll(e, f, 'MIN', INF, mts)
    elif rng == 'B':
        mts = [(1, rank_to_assignment(r, sizes, rel)) for r, v in enumerate(table) if v]
        S.coll(e, f, 'MAX', 0, mts)
    else:
        lo = min(table)
        mts = [(v, rank_to_assignment(r, sizes, rel)) for r, v in enumerate(table) if v != lo]
        S.coll(e, f, 'MAX', lo, mts)


def rand_table(rng, kind, npts, pal=None, p_default=0.4):
    pal = pal or (gen.palette(kind) + ([INF] if KINDS[kind][2] in ('EP', 'IX') else []))
    d = gen.default_of(kind)
    if KINDS[kind][1] == 'B':
        dens = rng.choice([0.1, 0.3, 0.5, 0.8])
        return [1 if rng.random() < dens else 0 for _ in range(npts)]
    return [d if rng.random() < p_default else rng.choice(pal) for _ in range(npts)]


ARITH = ['PLUS', 'MINUS', 'MULTIPLY', 'DIVIDE', 'MODULO', 'MAXIMUM', 'MINIMUM', 'DIST_MIN']
CMP = ['EQUAL', 'NOT_EQUAL', 'LESS_THAN', 'LESS_THAN_EQUAL', 'GREATER_THAN', 'GREATER_THAN_EQUAL']
USER = ['U_ABS', 'U_NEG', 'U_EVEN', 'U_INC3', 'U_SQ', 'U_ISPOS']

ARITH_PAL = {
    'mti_s': [-7, -1, 1, 2, 3, 20000], 'mti_r': [-7, -1, 1, 2, 3, 20000],
    'mtr_s': [-160, -8, 8, 64, 240], 'mtr_r': [-160, -8, 8, 64, 240],
    'evp_s': [0, 1, 2, 5, 100, -3, INF], 'evp_r': [0, 1, 2, 5, 100, -3, INF],
    'evt_r': [-128, 32, 64, 256, 8],
}


def arith_ops_for(kind):
    sr, rng, lab = KINDS[kind]
    ops = list(ARITH)
    if lab != 'MT':
        ops.remove('DIST_MIN')
    if rng == 'R':
        ops.remove('MODULO')
    return ops


# ---------------------------------------------------------------------------
# C05: element-wise arithmetic, comparisons, ranges
# ---------------------------------------------------------------------------
def c05_script(rng, sizes, kind, rules, cases, nonzero_div=False):
    """rules: (ra, rb, rr) reduction rules of the operand / result forests (all
    of kind `kind`; distinct forests even when the rule is the same).
    cases: list of (tableA, tableB, op)"""
    S = Script()
    d = S.dom(sizes)
    sr = KINDS[kind][0]
    fa = S.forest(d, kind, rules[0])
    fb = S.forest(d, kind, rules[1])
    fr = S.forest(d, kind, rules[2])
    fbool = S.forest(d, 'mtb_r' if sr == 'R' else 'mtb_s', rng.choice(gen.rules_of('mtb_r' if sr == 'R' else 'mtb_s')))
    fint = S.forest(d, 'mti_r' if sr == 'R' else 'mti_s', rng.choice(gen.rules_of('mti_r' if sr == 'R' else 'mti_s')))
    freal = S.forest(d, 'mtr_r' if sr == 'R' else 'mtr_s', rng.choice(gen.rules_of('mtr_r' if sr == 'R' else 'mtr_s')))
    ea, eb, er = S.new(fa), S.new(fb), S.new(fr)
    ea2 = S.new(fa)
    cres = {'B': S.new(fbool), 'I': S.new(fint), 'R': S.new(freal)}
    for (A, B, op) in cases:
        table_coll(S, ea, fa, kind, A, sizes)
        if op in USER or op in ('DIST_INC', 'RNG'):
            if op == 'RNG':
                S.add('rng MAX %d' % ea)
                S.add('rng MIN %d' % ea)
            elif op in ('U_EVEN', 'U_ISPOS'):
                S.add('un %s %d %d' % (op, cres['B'], ea))
            else:
                # result in the same forest kind: use the b-forest edge of kind `kind`
                S.add('un %s %d %d' % (op, er, ea))
            S.add('obs %d' % ea)
            continue
        if B is None:
            # x op x on the same edge
            S.add('bin %s %d %d %d' % (op, er if op in ARITH else cres[rng.choice('BIR')], ea, ea))
            S.add('obs %d' % ea)
            continue
        table_coll(S, eb, fb, kind, B, sizes)
        if op in ARITH:
            S.add('bin %s %d %d %d' % (op, er, ea, eb))
        else:
            S.add('bin %s %d %d %d' % (op, cres[rng.choice('BIR')], ea, eb))
        S.add('obs %d %d' % (ea, eb))
    return S.text()


@plan('C05')
def plan_c05(tier, seed, rng):
    scripts = []
    n = 0
    kinds = ['mti_s', 'mti_r', 'mtr_s', 'mtr_r', 'evp_s', 'evp_r', 'evt_r']
    for kind in kinds:
        rel = KINDS[kind][0] == 'R'
        pal = ARITH_PAL[kind]
        d = gen.default_of(kind)
        vals = sorted(set(pal + [d]), key=str)
        ops = arith_ops_for(kind) + CMP
        rules = gen.rules_of(kind)
        # exhaustive part: every function over the smallest domain with values
        # from the palette (sets: <2>, 2 points; relations: <2>, 4 points,
        # sampled), every pair, every operation
        import itertools
        if not rel:
            fns = [list(t) for t in itertools.product(vals, repeat=2)]
            pairs = [(a, b) for a in fns for b in fns]
        else:
            fns = [rand_table(rng, kind, 4, pal) for _ in range(40)]
            pairs = [(rng.choice(fns), rng.choice(fns)) for _ in range(400 if tier == 'thorough' else 120)]
        combos = [(a, b, c) for a in rules for b in rules for c in rules]
        rng.shuffle(combos)
        use = combos if tier == 'thorough' else combos[:2]
        for rl in use:
            if tier != 'thorough' and len(pairs) > 200:
                sub = rng.sample(pairs, 200)
            else:
                sub = pairs
            cases = []
            for (a, b) in sub:
                for op in (ops if tier == 'thorough' or rel else rng.sample(ops, 5)):
                    cases.append((a, b, op))
            rng.shuffle(cases)
            # split into several executions so that one crash does not hide the rest
            chunk = 700
            for i in range(0, len(cases), chunk):
                scripts.append(('t%03d' % n, c05_script(rng, [2], kind, rl, cases[i:i + chunk])))
                n += 1
        # random larger shapes; structured patterns that trigger the shortcut
        # predicates (x op x, constant operands, zero / one / infinity operands)
        reps = 8 if tier == 'thorough' else 2
        for _ in range(reps):
            sizes = gen.rand_sizes(rng, 9 if rel else 48, maxvars=(2 if rel else 3), maxsize=4)
            npts = points_of(sizes, rel)
            cases = []
            for _ in range(50 if tier == 'thorough' else 25):
                A = rand_table(rng, kind, npts, pal)
                x = rng.random()
                if x < 0.12:
                    B = None
                elif x < 0.3:
                    B = [rng.choice(vals)] * npts
                elif x < 0.4:
                    A = [rng.choice(vals)] * npts
                    B = rand_table(rng, kind, npts, pal)
                else:
                    B = rand_table(rng, kind, npts, pal)
                cases.append((A, B, rng.choice(ops)))
                if KINDS[kind][2] != 'ET' and rng.random() < 0.3:
                    cases.append((A, None, rng.choice(USER)))
                if kind.startswith('mti') and rng.random() < 0.2:
                    cases.append((A, None, 'DIST_INC'))
                if KINDS[kind][2] == 'MT' and rng.random() < 0.3:
                    cases.append((A, None, 'RNG'))
            rl = (rng.choice(rules), rng.choice(rules), rng.choice(rules))
            scripts.append(('r%03d' % n, c05_script(rng, sizes, kind, rl, cases)))
            n += 1
    return dict(
        scripts=scripts, validators=[API], tags={'C05', 'HELD'},
        rule='per forest kind (MT integer / MT real / EV+ / EV* ; sets and relations): every pair of functions over <2> with values from a '
             'palette spanning negative, zero, positive, large and (EV+) infinite values (relations: seeded sample of pairs over <2>), every '
             'arithmetic operation the factory builds for the kind and the six comparisons (result in a boolean, integer or real MT forest), '
             'operand/result forests = three distinct forests with reduction rules drawn from the kind\'s rules (all rule triples in thorough); '
             'plus seeded random functions on shapes up to 3 variables with structured operands (x op x, constants, zero/one/infinity), '
             'user-defined unary maps, DIST_INC, MAX_RANGE/MIN_RANGE; operands re-read after every call; non-trivial = result not constant, or an error outcome',
        exhaustive=False,
    )


# ---------------------------------------------------------------------------
# C10: copy between forests
# ---------------------------------------------------------------------------
COPY_PAL = {
    'mtb_s': None, 'mtb_r': None,
    'mti_s': [-7, -1, 1, 2, 3, 1000000], 'mti_r': [-7, -1, 1, 2, 3, 1000000],
    'mtr_s': [-160, -128, 8, 64, 240], 'mtr_r': [-160, -128, 8, 64, 240],
    'evp_s': [0, 1, 2, 5, 100, -3, INF], 'evp_r': [0, 1, 2, 5, 100, -3, INF],
    'evt_r': [-128, 32, 64, 256, 8],
}


def c10_script(rng, sizes, src, srule, dst, drule, tables):
    S = Script()
    d = S.dom(sizes)
    fs = S.forest(d, src, srule, sto=rng.choice('EFS'))
    fd = S.forest(d, dst, drule, sto=rng.choice('EFS'))
    a, back, r = S.new(fs), S.new(fs), S.new(fd)
    keep = S.new(fs)
    for T in tables:
        table_coll(S, a, fs, src, T, sizes)
        S.add('un COPY %d %d' % (r, a))
        S.add('un COPY %d %d' % (back, r))
        S.add('obs %d %d' % (a, r))
        if rng.random() < 0.2:
            S.add('asg %d %d' % (keep, a))
    S.add('snap %d' % fs)
    S.add('snap %d' % fd)
    return S.text()


@plan('C10')
def plan_c10(tier, seed, rng):
    scripts = []
    n = 0
    for shape_kinds, rel in ((['mtb_s', 'mti_s', 'mtr_s', 'evp_s'], False),
                             (['mtb_r', 'mti_r', 'mtr_r', 'evp_r', 'evt_r'], True)):
        pairs = [(s, d) for s in shape_kinds for d in shape_kinds]
        for (src, dst) in pairs:
            combos = [(a, b) for a in gen.rules_of(src) for b in gen.rules_of(dst)]
            rng.shuffle(combos)
            for (sr_, dr_) in (combos if tier == 'thorough' else combos[:2]):
                sizes = rng.choice([[2], [3]] if rel else [[2, 2], [2, 3], [3, 2]])
                if tier == 'thorough' and rng.random() < 0.5:
                    sizes = gen.rand_sizes(rng, 16 if rel else 64, maxvars=(2 if rel else 4), maxsize=4)
                npts = points_of(sizes, rel)
                tables = []
                if KINDS[src][1] == 'B' and npts <= 4:
                    tables = [[(x >> i) & 1 for i in range(npts)] for x in range(1 << npts)]
                else:
                    for _ in range(24 if tier == 'thorough' else 10):
                        tables.append(rand_table(rng, src, npts, COPY_PAL[src], p_default=rng.choice([0.2, 0.5, 0.8])))
                    dv = gen.default_of(src)
                    tables.append([dv] * npts)
                    if KINDS[src][1] != 'B':
                        tables.append([rng.choice(COPY_PAL[src])] * npts)
                    else:
                        tables.append([1] * npts)
                scripts.append(('c%03d' % n, c10_script(rng, sizes, src, sr_, dst, dr_, tables)))
                n += 1
    return dict(
        scripts=scripts, validators=[API], tags={'C10', 'HELD'},
        rule='every ordered pair of forest kinds of the same shape (sets: MT boolean/integer/real, EV+; relations: those plus EV*), two distinct '
             'forests even for equal kinds, source/target reduction rules drawn from all rules of the kind (all rule pairs in thorough); functions: all '
             'boolean functions on the smallest shapes, seeded tables from a palette (negative, zero, positive, large, infinity) elsewhere, plus the '
             'constant functions; each function is copied there and back (identity of the round trip is checked against the original edge when the '
             'functions are equal); non-trivial = result table not constant',
        exhaustive=False,
    )


# ---------------------------------------------------------------------------
# C15: index sets
# ---------------------------------------------------------------------------
def c15_script(rng, sizes, rule, sets):
    S = Script()
    d = S.dom(sizes)
    fs = S.forest(d, 'mtb_s', rule, sto=rng.choice('EFS'))
    fx = S.forest(d, 'idx_s', 'F', sto=rng.choice('EFS'))
    a, ix = S.new(fs), S.new(fx)
    for T in sets:
        table_coll(S, a, fs, 'mtb_s', T, sizes)
        S.add('un TOINDEX %d %d' % (ix, a))
        n = sum(T)
        S.add('icard %d' % ix)
        S.add('card %d' % ix)
        for i in range(-1, n + 2):
            S.add('elem %d %d' % (ix, i))
        S.add('iter %d' % ix)
    S.add('snap %d' % fx)
    return S.text()


@plan('C15')
def plan_c15(tier, seed, rng):
    scripts = []
    n = 0
    shapes = [[2, 2], [2, 3]] + ([[2, 2, 2], [3, 3]] if tier == 'thorough' else [])
    for sizes in shapes:
        npts = points_of(sizes, False)
        allsets = [[(x >> i) & 1 for i in range(npts)] for x in range(1 << npts)]
        for rule in ['F', 'Q']:
            sets = allsets if (npts <= 6 or tier == 'thorough') else rng.sample(allsets, 48) + [allsets[0], allsets[-1]]
            for i in range(0, len(sets), 64):
                scripts.append(('i%03d' % n, c15_script(rng, sizes, rule, sets[i:i + 64])))
                n += 1
    for _ in range(8 if tier == 'thorough' else 3):
        sizes = gen.rand_sizes(rng, 60, maxvars=4, maxsize=4)
        npts = points_of(sizes, False)
        sets = [rand_table(rng, 'mtb_s', npts) for _ in range(12)] + [[0] * npts, [1] * npts]
        scripts.append(('r%03d' % n, c15_script(rng, sizes, rng.choice('FQ'), sets)))
        n += 1
    return dict(
        scripts=scripts, validators=[API], tags={'C15'},
        rule='every boolean set over <2,2> and <2,3> (thorough: also <2,2,2> and <3,3>; quick samples <2,3>) including the empty and the full set, in a '
             'fully- and in a quasi-reduced source forest: CONVERT_TO_INDEX_SET evaluated at every point, getElement(i) for every i in -1..n+1, '
             'getIndexSetCardinality of the root, CARDINALITY and iteration of the index set; plus seeded random sets on shapes up to 4 variables; '
             'non-trivial = the set is neither empty nor full',
        exhaustive=True,
    )


# ---------------------------------------------------------------------------
# C11: enumeration and counting
# ---------------------------------------------------------------------------
def rand_mask(rng, sizes, rel):
    K = len(sizes)
    un = [rng.choice([-1, -1, rng.randrange(sizes[k])]) for k in range(K)]
    if not rel:
        return un
    pr = [rng.choice([-1, -1, -2, rng.randrange(sizes[k])]) for k in range(K)]
    return un + pr


def c11_script(rng, sizes, kind, rule, tables, all_masks=False):
    S = Script()
    d = S.dom(sizes)
    f = S.forest(d, kind, rule, sto=rng.choice('EFS'))
    rel = KINDS[kind][0] == 'R'
    a = S.new(f)
    for T in tables:
        table_coll(S, a, f, kind, T, sizes)
        S.add('iter %d' % a)
        S.add('card %d' % a)
        if all_masks:
            masks = list(gen.all_minterms(sizes, rel))
        else:
            masks = [rand_mask(rng, sizes, rel) for _ in range(4)]
        for m in masks:
            S.add('iter %d %s' % (a, ' '.join(map(str, m))))
    S.add('iter %d deref' % a)
    S.add('snap %d' % f)
    return S.text()


@plan('C11')
def plan_c11(tier, seed, rng):
    scripts = []
    n = 0
    for kind in [k for k in KINDS if k != 'idx_s']:
        rel = KINDS[kind][0] == 'R'
        for rule in gen.rules_of(kind):
            # tiny shape, every mask
            sizes = [2] if rel else [2, 2]
            npts = points_of(sizes, rel)
            pal = COPY_PAL.get(kind)
            tables = [rand_table(rng, kind, npts, pal, p_default=rng.choice([0.3, 0.6])) for _ in range(10 if tier == 'thorough' else 4)]
            tables += [[gen.default_of(kind)] * npts]
            if KINDS[kind][1] == 'B':
                tables += [[1] * npts]
            scripts.append(('m%03d' % n, c11_script(rng, sizes, kind, rule, tables, all_masks=True)))
            n += 1
            for _ in range(4 if tier == 'thorough' else 1):
                sizes = gen.rand_sizes(rng, 16 if rel else 100, maxvars=(2 if rel else 4), maxsize=4)
                npts = points_of(sizes, rel)
                tables = [rand_table(rng, kind, npts, pal, p_default=rng.choice([0.2, 0.5, 0.9])) for _ in range(12 if tier == 'thorough' else 6)]
                scripts.append(('r%03d' % n, c11_script(rng, sizes, kind, rule, tables)))
                n += 1
    return dict(
        scripts=scripts, validators=[API, STORE], tags={'C11'},
        rule='per forest kind x reduction rule: seeded functions on the smallest shape with *every* mask (each position fixed / free / unchanged), '
             'and on random shapes up to 4 variables with random masks; the recorded visit sequence (rank, value) must equal the specification\'s sequence '
             'exactly (order, multiplicity, values); CARDINALITY as long / double / mpz; node and edge counts of every result against the reachable '
             'sub-graph of the node snapshot (store-level validator); non-trivial = at least one assignment visited',
        exhaustive=False,
    )


# ---------------------------------------------------------------------------
# C09 / C08 / C20: relations
# ---------------------------------------------------------------------------
def dist_table(rng, kind, npts):
    """initial distance function: some states at distance 0 (or small), the
    rest unreachable (MT: negative, EV+: infinity)"""
    un = INF if KINDS[kind][2] == 'EP' else rng.choice([-1, -1, -5])
    p = rng.choice([0.15, 0.3, 0.6])
    return [rng.choice([0, 0, 0, 1, 3, 40]) if rng.random() < p else un for _ in range(npts)]


def rel_script(rng, sizes, skind, rules, rkind, rrule, cases, clear=False, same=False):
    """skind: kind of the set operand and result (two distinct forests with
    rules[0], rules[1], or one forest if same); rkind/rrule: relation forest.
    cases: (S, R, [ops])"""
    Sx = Script()
    d = Sx.dom(sizes)
    fa = Sx.forest(d, skind, rules[0])
    fr = fa if same else Sx.forest(d, skind, rules[1])
    fm = Sx.forest(d, rkind, rrule)
    a, r, m = Sx.new(fa), Sx.new(fr), Sx.new(fm)
    r2 = Sx.new(fr)
    for (T, R, ops) in cases:
        table_coll(Sx, a, fa, skind, T, sizes)
        table_coll(Sx, m, fm, rkind, R, sizes)
        for op in ops:
            if op == 'MV_MULTIPLY':
                Sx.add('bin %s %d %d %d' % (op, r, m, a))
            else:
                Sx.add('bin %s %d %d %d' % (op, r, a, m))
        Sx.add('obs %d %d' % (a, m))
        if clear:
            Sx.add('clearall')
    Sx.add('snap %d' % fr)
    return Sx.text()


def rand_relation(rng, sizes, kind='mtb_r', pal=None):
    n = points_of(sizes, False)
    npts = n * n
    style = rng.choice(['sparse', 'dense', 'selfloops', 'identityish', 'deadends'])
    dens = {'sparse': 0.08, 'dense': 0.4, 'selfloops': 0.12, 'identityish': 0.1, 'deadends': 0.15}[style]
    v = lambda: 1 if pal is None else rng.choice(pal)
    T = [v() if rng.random() < dens else 0 for _ in range(npts)]
    return T


@plan('C09')
def plan_c09(tier, seed, rng):
    scripts = []
    n = 0
    IMG = ['POST_IMAGE', 'PRE_IMAGE']
    setups = []
    for rr in ['I', 'F', 'Q']:
        for sr in (['F', 'Q']):
            setups.append(('mtb_s', (sr, rng.choice('FQ')), 'mtb_r', rr, IMG))
        setups.append(('mti_s', (rng.choice('FQ'), 'F'), 'mtb_r', rr, IMG))
        setups.append(('evp_s', (rng.choice('FQ'), rng.choice('FQ')), 'mtb_r', rr, IMG))
        setups.append(('mti_s', (rng.choice('FQ'), rng.choice('FQ')), 'mti_r', rr, ['VM_MULTIPLY', 'MV_MULTIPLY']))
        setups.append(('mtr_s', (rng.choice('FQ'), rng.choice('FQ')), 'mtr_r', rr, ['VM_MULTIPLY', 'MV_MULTIPLY']))
    for (sk, rules, rk, rr, ops) in setups:
        shapes = [[2], [3]] + ([[2, 2], [3, 2], [2, 3]] if tier == 'thorough' else [rng.choice([[2, 2], [3, 2], [2, 3], [2, 2, 2]])])
        for sizes in shapes:
            ns = points_of(sizes, False)
            cases = []
            reps = 40 if tier == 'thorough' else 16
            if sizes == [2] and sk == 'mtb_s':
                # exhaustive: every set x every relation
                for s in range(4):
                    for r in range(16):
                        cases.append(([(s >> i) & 1 for i in range(2)], [(r >> i) & 1 for i in range(4)], ops))
            else:
                for _ in range(reps):
                    if sk == 'mtb_s':
                        T = rand_table(rng, sk, ns)
                    elif 'MULTIPLY' in ops[0]:
                        T = rand_table(rng, sk, ns, [-3, 1, 2, 5] if sk == 'mti_s' else [-128, 32, 64, 96], p_default=0.4)
                    else:
                        T = dist_table(rng, sk, ns)
                    if rk == 'mtb_r':
                        R = rand_relation(rng, sizes)
                    else:
                        R = rand_relation(rng, sizes, rk, [-2, 1, 3, 4] if rk == 'mti_r' else [-64, 32, 64, 192])
                    cases.append((T, R, ops))
            scripts.append(('g%03d' % n, rel_script(rng, sizes, sk, rules, rk, rr, cases, clear=(n % 3 == 0))))
            n += 1
    return dict(
        scripts=scripts, validators=[API], tags={'C09', 'HELD'},
        rule='POST_IMAGE / PRE_IMAGE for boolean sets (every set x every relation over <2>; seeded pairs over <3>, <2,2>, <3,2>, <2,3>, <2,2,2>), '
             'MT-integer distance functions (result forest fully reduced) and EV+ distance functions, relation forests identity-, fully- and quasi-reduced; '
             'VM_MULTIPLY / MV_MULTIPLY for integer and (dyadic) real vectors and matrices; relation families: sparse, dense, self-loops, dead ends; '
             'operands re-read after every call; non-trivial = result not constant',
        exhaustive=False,
    )


REACH = ['REACH_FS_F', 'REACH_FS_B', 'REACH_NOFS_F', 'REACH_NOFS_B', 'REACH_SAT_F', 'REACH_SAT_B']


@plan('C08')
def plan_c08(tier, seed, rng):
    scripts = []
    n = 0
    setups = []
    DOPS = ['REACH_NOFS_F', 'REACH_NOFS_B', 'REACH_SAT_F', 'REACH_SAT_B']
    for rr in ['I', 'F', 'Q']:
        for same in (True, False):
            setups.append(('mtb_s', ('F', 'F'), rr, REACH, same))
            setups.append(('mtb_s', ('Q', rng.choice('FQ')), rr, REACH, same))
            setups.append(('mti_s', ('F', 'F'), rr, DOPS, same))
            setups.append(('evp_s', (rng.choice('FQ'), rng.choice('FQ')), rr, DOPS, same))
        setups.append(('mti_s', ('Q', 'F'), rr, DOPS, False))
    for (sk, rules, rr, ops, same) in setups:
        shapes = [[2], [3]] + ([[2, 2], [3, 2], [2, 2, 2]] if tier == 'thorough' else [rng.choice([[2, 2], [3, 2], [2, 3]])])
        for sizes in shapes:
            ns = points_of(sizes, False)
            cases = []
            if sizes == [2] and sk == 'mtb_s':
                for s in range(4):
                    for r in range(16):
                        cases.append(([(s >> i) & 1 for i in range(2)], [(r >> i) & 1 for i in range(4)], ops))
            else:
                for _ in range(30 if tier == 'thorough' else 10):
                    T = rand_table(rng, sk, ns) if sk == 'mtb_s' else dist_table(rng, sk, ns)
                    cases.append((T, rand_relation(rng, sizes), ops))
            # sequences of calls on different relations in the same forests,
            # nothing cleared in between (the relation split cached in the
            # saturation operation is reused across calls)
            scripts.append(('q%03d' % n, rel_script(rng, sizes, sk, rules, 'mtb_r', rr, cases, clear=False, same=same)))
            n += 1
    return dict(
        scripts=scripts, validators=[API], tags={'C08', 'HELD'},
        rule='REACHABLE_TRAD_FS / TRAD_NOFS / SATUR, forward and backward: every initial set x every relation over <2>; seeded (set, relation) pairs over '
             '<3>, <2,2>, <3,2>, <2,3>, <2,2,2> with relation families sparse / dense / self-loops / dead ends; boolean sets, MT-integer distance and EV+ '
             'distance functions (NOFS and SATUR); relation forests identity-, fully- and quasi-reduced; calls are issued in sequence in the same forests '
             'with nothing cleared in between; all algorithms on one (set, relation) write into the same result forest so that their results are compared '
             'for identity (C01 tag) as well as with the least fixed point computed by TLC; non-trivial = result not constant',
        exhaustive=False,
    )


def c20_script(rng, sizes, rules, rrule, cases):
    """cases: (init table, [event tables], mode, split)"""
    S = Script()
    d = S.dom(sizes)
    fa = S.forest(d, 'mtb_s', rules[0])
    fr = fa         # the saturation operation requires one forest for the initial set and the result
    fother = S.forest(d, 'mtb_s', rules[1])
    fm = S.forest(d, 'mtb_r', rrule)
    a, r, r2 = S.new(fa), S.new(fr), S.new(fr)
    rother = S.new(fother)
    union = S.new(fm)
    evs = [S.new(fm) for _ in range(6)]
    for (T, events, mode, split) in cases:
        table_coll(S, a, fa, 'mtb_s', T, sizes)
        for i, E in enumerate(events):
            table_coll(S, evs[i], fm, 'mtb_r', E, sizes)
        S.add('sat %d %d %s %d %d %s' % (r, a, mode, split, len(events), ' '.join(str(evs[i]) for i in range(len(events)))))
        # monolithic reachability on the union relation, into the same forest
        S.add('asg %d %d' % (union, evs[0]))
        for i in range(1, len(events)):
            S.add('bin UNION %d %d %d' % (union, union, evs[i]))
        S.add('bin REACH_NOFS_F %d %d %d' % (r2, a, union))
        S.add('obs %d' % a)
    # documented restriction: a result in another forest is refused
    S.add('sat %d %d BYEV 0 1 %d' % (rother, a, evs[0]))
    S.add('obs %d' % a)
    return S.text()


def rand_event(rng, sizes):
    """an event: touches a subset of the variables; on the others it is the
    identity (don't change) - built as a table"""
    K = len(sizes)
    n = points_of(sizes, False)
    touched = [k for k in range(K) if rng.random() < 0.6] or [rng.randrange(K)]
    # local transitions per touched variable
    local = {}
    for k in touched:
        s = sizes[k]
        local[k] = [(i, j) for i in range(s) for j in range(s) if rng.random() < 0.35] or [(0, s - 1)]
    T = [0] * (n * n)
    # enumerate pairs (x, y)
    import itertools
    for x in itertools.product(*[range(s) for s in sizes]):
        for y in itertools.product(*[range(s) for s in sizes]):
            ok = True
            for k in range(K):
                if k in local:
                    if (x[k], y[k]) not in local[k]:
                        ok = False
                        break
                elif x[k] != y[k]:
                    ok = False
                    break
            if ok:
                # rank: level K most significant, digits x_K x'_K ... x_1 x'_1
                r = 0
                for k in range(K - 1, -1, -1):
                    r = (r * sizes[k] + x[k]) * sizes[k] + y[k]
                T[r] = 1
    return T


@plan('C20')
def plan_c20(tier, seed, rng):
    scripts = []
    n = 0
    shapes = [[2, 2], [3, 2]] + ([[2, 2, 2], [2, 3, 2]] if tier == 'thorough' else [])
    for sizes in shapes:
        ns = points_of(sizes, False)
        for rrule in ['I', 'F', 'Q']:
            for mode in ['BYEV', 'BYLV']:
                for split in (range(5) if mode == 'BYLV' else [0]):
                    cases = []
                    for _ in range(12 if tier == 'thorough' else 5):
                        nev = rng.randint(1, 4)
                        events = [rand_event(rng, sizes) for _ in range(nev)]
                        if rng.random() < 0.2:
                            events[rng.randrange(nev)] = [0] * (ns * ns)        # an empty event
                        T = rand_table(rng, 'mtb_s', ns)
                        cases.append((T, events, mode, split))
                    scripts.append(('e%03d' % n, c20_script(rng, sizes, (rng.choice('FQ'), rng.choice('FQ')), rrule, cases)))
                    n += 1
    return dict(
        scripts=scripts, validators=[API], tags={'C20', 'HELD'},
        rule='lists of 1..4 event relations over <2,2>, <3,2> (thorough: <2,2,2>, <2,3,2>): each event changes a random subset of the variables by random '
             'local transitions and leaves the others unchanged (overlapping and disjoint supports, self-loops, events whose top variable is unchanged, '
             'empty events); random initial sets; pregen_relation by events and by levels with each of the five splitting options; relation forests '
             'identity-, fully- and quasi-reduced; SATURATION_FORWARD must equal the least fixed point TLC computes for the union relation and be the '
             'identical edge to REACHABLE_TRAD_NOFS on the union relation computed into the same forest; non-trivial = result not constant',
        exhaustive=False,
    )
