#!/usr/bin/env python3
"""show the trace lines around each saved violation: showviol.py <prop> [n]"""
import json, sys, glob
prop = sys.argv[1]
for d in sorted(glob.glob('/verif/replays/%s-*' % prop))[:int(sys.argv[2]) if len(sys.argv) > 2 else 4]:
    try:
        why = json.load(open(d + '/why.json'))
    except Exception:
        print(d, 'no why.json'); continue
    ln = why['trace_line']
    L = open(d + '/trace.ndjson').read().splitlines()
    fors = [json.loads(x) for x in L if x.startswith('{"e":"For"')]
    print(d, why['kind'], [(f['f'], f['lab'], f['rng'], f['rule'], f['rel']) for f in fors])
    for x in L[max(0, ln - 3):ln]:
        print('    ', x[:int(sys.argv[3]) if len(sys.argv) > 3 else 500])
