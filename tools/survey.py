#!/usr/bin/env python3
"""survey.py <workdir>: tabulate, per (op, forest configuration), how many calls
the API validator flagged.  Development aid (not part of a check)."""
import sys, os, json, glob, collections, subprocess
sys.path.insert(0, os.path.dirname(os.path.abspath(__file__)))
import vcheck as V
work = sys.argv[1]
traces = sorted(glob.glob(os.path.join(work, 'traces', '*.ndjson')))
viols, k, st, tr, nl = V.validate(traces, 'MddApiTrace.tla', 'MddApiTrace.cfg', work, tag='survey')
bad = collections.defaultdict(set)
for (p, kind, t, line) in viols:
    bad[t].add((line, p, kind))
tot = collections.Counter(); fl = collections.Counter(); kinds = collections.defaultdict(collections.Counter)
for t in traces:
    fors = {}
    L = open(t).read().splitlines()
    flagged = {}
    for (line, p, kind) in bad.get(t, ()):
        flagged.setdefault(line, []).append((p, kind))
    lastcall = None
    for i, x in enumerate(L, 1):
        ev = json.loads(x)
        if ev['e'] == 'For':
            fors[ev['f']] = ev['lab'] + ev['rng'] + ev['rule']
        key = None
        if ev['e'] in ('Bin', 'Un', 'Sat'):
            same = 'same' if ev.get('af') == ev.get('rf') else 'diff'
            key = (ev.get('op', ev.get('mode', '') + str(ev.get('split', ''))), fors.get(ev.get('af')), fors.get(ev.get('bf')), fors.get(ev.get('rf')), same)
            tot[key] += 1
            lastcall = key
        if i in flagged:
            k2 = key or (('after',) + (lastcall or ()))
            if ev['e'] == 'Crash':
                k2 = ('CRASH ' + ev['cmd'].split()[1] if len(ev['cmd'].split()) > 1 else 'CRASH',) + tuple(lastcall or ())[1:]
            fl[k2] += 1
            for pk in flagged[i]:
                kinds[k2][pk[1][:40]] += 1
for key in sorted(set(tot) | set(fl), key=str):
    if fl.get(key):
        print(key, '%d/%d' % (fl[key], tot.get(key, 0)), dict(kinds[key]))
print('clean configurations:')
for key in sorted(tot, key=str):
    if not fl.get(key):
        print('   ', key, tot[key])
