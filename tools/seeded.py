#!/usr/bin/env python3
"""Run the registered checks against the seeded changes under /verif/seeded.

    seeded.py [--tier quick|thorough] [--props C01,C06] [--worktree DIR --copy DIR] [id ...]

For every seeded/<id>/ (patch.diff + meta.json): apply the patch to /repo's
working tree, run the check of the property the change breaks (plus any listed
in --props), record whether it reported a VIOLATION, and restore the tree
(`git checkout -- .`).  Results are appended to seeded/RESULTS.md.  The tree is
restored even if a check fails; nothing is ever committed to /repo.

With --worktree DIR --copy DIR the patches are applied to the scratch git worktree
DIR instead (never to /repo) and the checks run from a fresh copy of /verif at
--copy (`REPO=DIR ./check ...`: the Makefile builds from $REPO), so that seeded runs
do not disturb checks that are running on /repo at the same time.
"""
import json
import os
import subprocess
import sys
import time

VERIF = os.path.dirname(os.path.dirname(os.path.abspath(__file__)))
REPO = '/repo'
RUN_FROM = [None]


def sh(cmd, **kw):
    return subprocess.run(cmd, shell=True, stdout=subprocess.PIPE, stderr=subprocess.STDOUT, text=True, **kw)


def clean_tree():
    out = sh('git -C %s status --porcelain --untracked-files=no' % REPO).stdout.strip()
    return out == ''


def main(argv):
    global REPO, VERIF
    tier = 'quick'
    extra = []
    ids = []
    i = 1
    while i < len(argv):
        if argv[i] == '--worktree':
            REPO = argv[i + 1]
            i += 2
            continue
        if argv[i] == '--copy':
            copy = argv[i + 1]
            sh('mkdir -p %s && rsync -a --delete --exclude build --exclude work --exclude replays --exclude .git --exclude evidence %s/ %s/ && mkdir -p %s/evidence'
               % (copy, VERIF, copy, copy))
            RUN_FROM[0] = copy
            i += 2
            continue
        if argv[i] == '--tier':
            tier = argv[i + 1]
            i += 2
        elif argv[i] == '--props':
            extra = argv[i + 1].split(',')
            i += 2
        else:
            ids.append(argv[i])
            i += 1
    sdir = os.path.join(VERIF, 'seeded')
    if not ids:
        ids = sorted(d for d in os.listdir(sdir) if os.path.isdir(os.path.join(sdir, d)))
    if not clean_tree():
        print('refusing to run: %s has uncommitted changes to tracked files' % REPO)
        return 2
    rows = []
    for sid in ids:
        d = os.path.join(sdir, sid)
        meta = json.load(open(os.path.join(d, 'meta.json')))
        props = [meta['property']] + [p for p in extra if p != meta['property']]
        ap = sh('git -C %s apply %s' % (REPO, os.path.join(d, 'patch.diff')))
        if ap.returncode != 0:
            print(sid, 'patch does not apply:', ap.stdout[-300:])
            rows.append((sid, meta['property'], '-', 'patch does not apply', 0))
            continue
        try:
            for p in props:
                t0 = time.time()
                r = sh('cd %s && REPO=%s ./check %s %s' % (RUN_FROM[0] or VERIF, REPO, p, tier), timeout=7200)
                viol = [l for l in r.stdout.splitlines() if l.startswith('VIOLATION')]
                kinds = [l for l in r.stdout.splitlines() if l.strip().startswith('->')]
                verdict = 'CAUGHT' if r.returncode == 1 and viol else ('missed' if r.returncode == 0 else 'machinery rc=%d' % r.returncode)
                first = kinds[0].strip()[3:] if kinds else ''
                print('%-28s %-4s %-8s %-9s %s' % (sid, p, tier, verdict, first[:110]), flush=True)
                rows.append((sid, p, tier, verdict + ((': ' + first) if first else ''), time.time() - t0))
        finally:
            sh('git -C %s checkout -- .' % REPO)
    assert clean_tree()
    with open(os.path.join(sdir, 'RESULTS.md'), 'a') as f:
        f.write('\n### run %s (tier %s)\n\n| seeded change | check | verdict | s |\n|---|---|---|---|\n' % (time.strftime('%Y-%m-%d %H:%M'), tier))
        for (sid, p, tr, v, s) in rows:
            f.write('| %s | %s %s | %s | %.0f |\n' % (sid, p, tr, v.replace('|', '/'), s))
    return 0


if __name__ == '__main__':
    sys.exit(main(sys.argv))
