"""Script generators for mdrive (the real-library driver).

A script is a list of text lines (see harness/mdrive.cc).  Generators only
*choose inputs*; they never compute expected results - that is TLC's job when
it validates the recorded trace against the specification.
"""
import itertools
import random

INF = 'inf'

# forest kinds: (setrel, range, labeling), rules allowed
KINDS = {
    'mtb_s': ('S', 'B', 'MT'), 'mti_s': ('S', 'I', 'MT'), 'mtr_s': ('S', 'R', 'MT'),
    'mtb_r': ('R', 'B', 'MT'), 'mti_r': ('R', 'I', 'MT'), 'mtr_r': ('R', 'R', 'MT'),
    'evp_s': ('S', 'I', 'EP'), 'evp_r': ('R', 'I', 'EP'),
    'evt_r': ('R', 'R', 'ET'),
    'idx_s': ('S', 'I', 'IX'),
}
SET_KINDS = [k for k in KINDS if KINDS[k][0] == 'S']
REL_KINDS = [k for k in KINDS if KINDS[k][0] == 'R']


def rules_of(kind):
    return ['F', 'Q', 'I'] if KINDS[kind][0] == 'R' else ['F', 'Q']


# value palettes (script values: integers; reals in units of 1/64, only
# multiples of 1/8 so that one product stays on the grid)
def palette(kind):
    sr, rng, lab = KINDS[kind]
    if rng == 'B':
        return [1]
    if lab == 'MT' and rng == 'I':
        return [-7, -1, 1, 2, 3, 1000000]
    if lab == 'MT' and rng == 'R':
        return [-160, -8, 8, 64, 240]
    if lab in ('EP', 'IX'):
        return [0, 1, 2, 5, 100, -3]
    if lab == 'ET':
        return [-128, 32, 64, 256, 8]      # powers of two: EV* normalisation stays exact
    raise ValueError(kind)


def default_of(kind):
    """the forest's transparent value"""
    lab = KINDS[kind][2]
    return INF if lab in ('EP', 'IX') else 0


class Script:
    def __init__(self, ct=None):
        self.lines = []
        self.nslot = 0
        self.nfor = 0
        self.ndom = 0
        self.forinfo = {}
        self.dominfo = {}
        if ct is not None:
            self.lines.append('ct %d %d %d' % ct)
        self.lines.append('init')

    def add(self, line):
        self.lines.append(line)

    def dom(self, sizes):
        d = self.ndom
        self.ndom += 1
        self.dominfo[d] = list(sizes)
        self.add('dom %d %d %s' % (d, len(sizes), ' '.join(map(str, sizes))))
        return d

    def forest(self, d, kind, rule='F', sto='E', mm='OG', dele='O', swap='V', heur='SD'):
        f = self.nfor
        self.nfor += 1
        sr, rng, lab = KINDS[kind]
        self.forinfo[f] = dict(d=d, kind=kind, rule=rule, rel=(sr == 'R'))
        self.add('for %d %d %s %s %s %s %s %s %s %s %s' % (f, d, sr, rng, lab, rule, sto, mm, dele, swap, heur))
        return f

    def slot(self):
        s = self.nslot
        self.nslot += 1
        return s

    def new(self, f):
        s = self.slot()
        self.add('new %d %d' % (s, f))
        return s

    def sizes_of(self, f):
        return self.dominfo[self.forinfo[f]['d']]

    def npoints(self, f):
        n = 1
        for s in self.sizes_of(f):
            n *= s * s if self.forinfo[f]['rel'] else s
        return n

    def coll(self, s, f, mode, deflt, mts):
        """mts: list of (value, assignment list)"""
        parts = ['coll', str(s), str(f), mode, str(deflt), str(len(mts))]
        for v, a in mts:
            parts.append(str(v))
            parts.extend(str(x) for x in a)
        self.add(' '.join(parts))

    def text(self):
        return '\n'.join(self.lines) + '\n'


def rand_sizes(rng, maxpoints, maxvars=4, maxsize=5):
    """random shape with at most maxpoints assignments"""
    while True:
        k = rng.randint(1, maxvars)
        sizes = [rng.randint(2, maxsize) for _ in range(k)]
        n = 1
        for s in sizes:
            n *= s
        if n <= maxpoints:
            return sizes


def rand_minterm(rng, sizes, rel, p_dc=0.35, p_dch=0.25):
    K = len(sizes)
    un = []
    for k in range(K):
        un.append(-1 if rng.random() < p_dc else rng.randrange(sizes[k]))
    if not rel:
        return un
    pr = []
    for k in range(K):
        x = rng.random()
        if x < p_dch:
            pr.append(-2)
        elif x < p_dch + p_dc:
            pr.append(-1)
        else:
            pr.append(rng.randrange(sizes[k]))
    return un + pr


def all_minterms(sizes, rel):
    """every minterm: each unprimed position fixed or don't-care, each primed
    position fixed, don't-care or don't-change"""
    K = len(sizes)
    un_choices = [list(range(s)) + [-1] for s in sizes]
    if not rel:
        for a in itertools.product(*un_choices):
            yield list(a)
        return
    pr_choices = [list(range(s)) + [-1, -2] for s in sizes]
    for a in itertools.product(*(un_choices + pr_choices)):
        yield list(a)


def pick_mode_default(rng, kind, values):
    """choose MAX or MIN and a default that satisfies the documented
    precondition (MAX: default <= every value; MIN: default >= every value)"""
    sr, rngt, lab = KINDS[kind]
    if rngt == 'B':
        # boolean: values are all true -> MAX with default false, or all-false
        # values with MIN and default true
        return 'MAX', 0
    pal = palette(kind)
    fin = [v for v in values if v != INF]
    lo = min(fin) if fin else 0
    hi = max(fin) if fin else 0
    if lab in ('EP', 'IX'):
        if rng.random() < 0.6 or INF in values:
            return 'MIN', INF
        cands = [v for v in pal + [lo - 1, lo] if v <= lo]
        return 'MAX', rng.choice(cands)
    if rng.random() < 0.5:
        cands = [v for v in pal + [0, lo - 1, lo] if v <= lo]
        return 'MAX', rng.choice(cands)
    cands = [v for v in pal + [0, hi + 1, hi] if v >= hi]
    return 'MIN', rng.choice(cands)
