# Properties not claimed, each with the reason (exec'd by mkmanifest.py): none at present
