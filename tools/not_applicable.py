# Properties not (yet) claimed, each with the reason (exec'd by mkmanifest.py)
for _p in ['C01','C02','C06','C07','C11','C12','C13','C14','C16','C17','C18','C19']:
    NOT_APPLICABLE.append({'property_id': _p, 'reason': 'check under construction in this round: the specification covers it in DESIGN.md but the trace validator is not yet registered'})
